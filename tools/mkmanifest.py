#!/usr/bin/env python3
"""regenerate MANIFEST.json from tools/propinfo.py (claimed properties) + NOT_APPLICABLE"""
import json, os, sys
HERE = os.path.dirname(os.path.abspath(__file__)); VERIF = os.path.dirname(HERE)
sys.path.insert(0, HERE)
import propinfo
props = [json.loads(l)["id"] for l in open(os.path.join(VERIF, "properties.jsonl"))]
m = {
 "version": 1,
 "setup_cmd": "true",
 "hooks": {"guard": "CJSON_VERIF",
           "enable": "no hooks: /repo is never edited for verification; annotations (loop contracts, static hoisting, variadic renaming, typed struct copies, volatile shared error record: rules R1-R6) are injected into a scratch copy on every run by tools/annotate.py",
           "baseline_off_cmd": "cmake --build /repo/_build && ctest --test-dir /repo/_build -j8 --timeout 900",
           "source_commits": [], "add_only": True},
 "engines": [{"name": "cbmc-dfcc", "path": "tools/check.py", "serves_properties": [p for p in props if p in propinfo.PROPS],
              "kind_free_text": "contract-based deductive verification: CBMC 6.11 code contracts enforced per function with goto-instrument --dfcc, SAT back ends cadical / minisat2 (per unit)"}],
 "checks": [], "not_applicable": [],
 "notes": "See DESIGN.md. exit 0 = all obligations deciding the property discharged; exit 1 = VIOLATION; exit 2 = undecided (tool limit), never reported as violation.",
}
for p in props:
    if p in propinfo.PROPS:
        i = propinfo.PROPS[p]
        m["checks"].append({
            "property_id": p,
            "quick_cmd": "./check %s --tier quick" % p,
            "thorough_cmd": "./check %s --tier thorough" % p,
            "evidence_file": "/verif/evidence/%s.json" % p,
            "replay_cmd_template": "cat {path}",
            "engine": "cbmc-dfcc",
            "level_claimed": {"category": i.get("level", "proof"), "text": i["text"], "design_ref": i.get("design_ref", "DESIGN.md 3")},
            "level_note": i["note"],
            "technique": i["technique"]})
    else:
        m["not_applicable"].append({"property_id": p, "reason": propinfo.NOT_APPLICABLE.get(p, "check not built yet (build phase in progress); planned units in DESIGN.md section 3")})
json.dump(m, open(os.path.join(VERIF, "MANIFEST.json"), "w"), indent=1)
print("claimed:", [c["property_id"] for c in m["checks"]])
