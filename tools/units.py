"""Registry of proof units (DESIGN.md 3).  shape: U unbounded, W poisoned window, S skeleton (children<=K), B bounded bytes."""
from driver import Unit
UNITS = {}
def U(*a, **k):
    u = Unit(*a, **k)
    assert u.name not in UNITS, u.name
    UNITS[u.name] = u
    return u

# ---------------------------------------------------------------- cJSON.c : parser tokens
U("parse_hex4", "cjson", "harness/parse_hex4.c", enforce="parse_hex4", shape="U", props=["C01", "C02", "C03", "C14", "C20"],
  unwind=5, covers=2, note="loop bound is the source constant 4: complete unwinding")
U("utf16_literal_to_utf8", "cjson", "harness/utf16_literal_to_utf8.c", enforce="utf16_literal_to_utf8", shape="U",
  props=["C01", "C02", "C03", "C14", "C20"], unwind=5, covers=3,
  note="all windows of every length; loops bounded by source constants 4 (hex) and 3 (continuation bytes)")
U("compare_double", "cjson", "harness/compare_double.c", enforce="compare_double", shape="U", props=["C12", "C04", "C14", "C20"], covers=3,
  note="bit-precise IEEE-754 over all pairs of doubles")
U("compare_double_sym", "cjson", "harness/compare_double_sym.c", no_contract=True, shape="U", props=["C12"], covers=1, funcs=["compare_double"],
  note="symmetry/reflexivity lemma on the real function, loop-free => complete")
U("buffer_skip_whitespace", "cjson", "harness/buffer_skip_whitespace.c", enforce="buffer_skip_whitespace", shape="U", loops=True,
  props=["C01", "C02", "C03", "C10", "C14", "C20"], covers=3, expect_loop_obligations=1,
  note="buffers of every length <= 2^47 through the loop contract")
U("skip_utf8_bom", "cjson", "harness/skip_utf8_bom.c", enforce="skip_utf8_bom", shape="U", props=["C01", "C02", "C03", "C14", "C20"], covers=3, unwind=6)
U("parse_number", "cjson", "harness/parse_number.c", enforce="parse_number", shape="U", tiers=(),
  props=["C01", "C02", "C03", "C10", "C14", "C20"], covers=3, unwind=66, timeout=(900, 1800),
  note="copy loop bounded by the source constant 63 and the strtod model's scan of the 64-byte stack buffer: complete unwinding (a loop contract is not usable: the loop is left by `goto`, which dfcc's loop instrumentation mishandles)")
U("parse_value", "cjson", "harness/parse_value.c", enforce="parse_value", shape="U", props=["C01", "C02", "C03", "C08", "C14", "C20"], covers=4, unwind=6,
  replace=["parse_string", "parse_number/parse_number_cv", "parse_array", "parse_object"],
  note="dispatch proved for every buffer; delegates replaced by contracts (callee views)")
U("parse_number_plain", "cjson", "harness/parse_number_plain.c", no_contract=True, shape="U", funcs=["parse_number"],
  props=["C01", "C02", "C03", "C10"], covers=3, unwind=66, timeout=(900, 1800),
  note="complete unwinding of the 63-byte copy loop without dfcc; pre/post stated by the harness")
U("cJSON_ParseWithLengthOpts", "cjson", "harness/cJSON_ParseWithLengthOpts.c", enforce="cJSON_ParseWithLengthOpts", shape="U", loops=True,
  expect_loop_obligations=1, props=["C10", "C01", "C02", "C03", "C08", "C14", "C20"], covers=5, unwind=6,
  replace=["parse_value", "cJSON_Delete"], timeout=(600, 1800),
  note="all buffers/lengths, both flags, with and without return_parse_end, both hook configurations, allocator may fail")
U("cJSON_ParseWithOpts", "cjson", "harness/cJSON_ParseWithOpts.c", enforce="cJSON_ParseWithOpts", shape="U", loops=True, expect_loop_obligations=1,
  props=["C10", "C01", "C02", "C14", "C20"], covers=3, replace=["cJSON_ParseWithLengthOpts"],
  note="strings of every length (strlen model with loop contract); callee replaced by its proved contract + ghost call log")
U("cJSON_Parse", "cjson", "harness/cJSON_Parse.c", enforce="cJSON_Parse", shape="U", props=["C01", "C02", "C14", "C20"], covers=2,
  replace=["cJSON_ParseWithOpts"], note="forwarding proved against the logged callee contract")
U("cJSON_ParseWithLength", "cjson", "harness/cJSON_ParseWithLength.c", enforce="cJSON_ParseWithLength", shape="U", props=["C01", "C02", "C14", "C20"], covers=2,
  replace=["cJSON_ParseWithLengthOpts"])
U("cJSON_GetErrorPtr", "cjson", "harness/cJSON_GetErrorPtr.c", enforce="cJSON_GetErrorPtr", shape="U", props=["C10", "C20"], covers=2,
  checks_off=["--pointer-overflow-check"], note="pointer-overflow check off: the code forms NULL + 0 after a successful parse (benign, but flagged by CBMC)")

# ---------------------------------------------------------------- cJSON.c : printing
U("ensure", "cjson", "harness/ensure.c", enforce="ensure", shape="U", props=["C04", "C07", "C08", "C09", "C14", "C20"], covers=4, unwind=4,
  timeout=(600, 1800), note="all buffer lengths 0..INT_MAX, all offsets, both growth paths, noalloc, failing allocator")
U("print_number", "cjson", "harness/print_number.c", enforce="print_number", shape="U", props=["C04", "C05", "C08", "C09", "C14", "C20"], covers=5,
  replace=["ensure"], unwind=27, timeout=(600, 1800), note="all doubles bit-precisely; copy loop bounded by the 26-byte stack buffer: complete unwinding")
U("print_value", "cjson", "harness/print_value.c", enforce="print_value", shape="U", loops=True, expect_loop_obligations=1,
  props=["C04", "C05", "C08", "C09", "C14", "C20"], covers=5, unwind=8,
  replace=["ensure", "print_number/print_number_cv", "print_string", "print_array", "print_object"],
  note="type dispatch for every type word; literal writers exact; raw copied through the strlen/memcpy models (pointwise at g_k)")
U("update_offset", "cjson", "harness/update_offset.c", enforce="update_offset", shape="U", loops=True, expect_loop_obligations=1, defs=["-DVF_STRLEN_HINT"],
  props=["C04", "C05", "C09", "C14", "C20"], covers=1, note="strlen model with a hinted terminator (loop contract): buffers of every length")
U("print", "cjson", "harness/print.c", enforce="print", shape="U", props=["C04", "C05", "C07", "C08", "C14", "C20"], covers=3, defs=["-DVF_VIEW_PV_ALLOC"],
  replace=["print_value", "update_offset"], timeout=(600, 1800),
  note="both final paths (realloc / allocate+copy+release), allocator may fail at every request; print_value/update_offset replaced by callee views")
U("cJSON_PrintBuffered", "cjson", "harness/cJSON_PrintBuffered.c", enforce="cJSON_PrintBuffered", shape="U", props=["C04", "C05", "C07", "C08", "C14", "C20"], covers=3,
  defs=["-DVF_VIEW_PV_ALLOC"], replace=["print_value"], timeout=(600, 1800))
U("cJSON_PrintPreallocated", "cjson", "harness/cJSON_PrintPreallocated.c", enforce="cJSON_PrintPreallocated", shape="U", props=["C05", "C08", "C09", "C14", "C20"], covers=3,
  defs=["-DVF_VIEW_PV_LOG"], replace=["print_value"])
U("cJSON_Print", "cjson", "harness/cJSON_Print.c", enforce="cJSON_Print", shape="U", props=["C04", "C05", "C14", "C20"], covers=1, replace=["print/print_cv"])
U("cJSON_PrintUnformatted", "cjson", "harness/cJSON_PrintUnformatted.c", enforce="cJSON_PrintUnformatted", shape="U", props=["C04", "C05", "C14", "C20"], covers=1, replace=["print/print_cv"])
