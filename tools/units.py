"""Registry of proof units (DESIGN.md 3).  shape: U unbounded, W poisoned window, S skeleton (children<=K), B bounded bytes."""
from driver import Unit
UNITS = {}
def U(*a, **k):
    u = Unit(*a, **k)
    assert u.name not in UNITS, u.name
    UNITS[u.name] = u
    return u

# ---------------------------------------------------------------- cJSON.c : parser tokens
U("parse_hex4", "cjson", "harness/parse_hex4.c", enforce="parse_hex4", shape="U", props=["C01", "C02", "C03", "C14", "C20"],
  unwind=5, covers=2, note="loop bound is the source constant 4: complete unwinding")
U("utf16_literal_to_utf8", "cjson", "harness/utf16_literal_to_utf8.c", enforce="utf16_literal_to_utf8", shape="U",
  props=["C01", "C02", "C03", "C14", "C20"], unwind=5, covers=3,
  note="all windows of every length; loops bounded by source constants 4 (hex) and 3 (continuation bytes)")
U("compare_double", "cjson", "harness/compare_double.c", enforce="compare_double", shape="U", props=["C12", "C04", "C14", "C20"], covers=3,
  note="bit-precise IEEE-754 over all pairs of doubles")
U("compare_double_sym", "cjson", "harness/compare_double_sym.c", no_contract=True, shape="U", props=["C12"], covers=1, funcs=["compare_double"],
  note="symmetry/reflexivity lemma on the real function, loop-free => complete")
