"""Registry of proof units (DESIGN.md 3).  shape: U unbounded, W poisoned window, S skeleton (children<=K), B bounded bytes."""
from driver import Unit
UNITS = {}
def U(*a, **k):
    u = Unit(*a, **k)
    assert u.name not in UNITS, u.name
    UNITS[u.name] = u
    return u

# ---------------------------------------------------------------- cJSON.c : parser tokens
U("parse_hex4", "cjson", "harness/parse_hex4.c", enforce="parse_hex4", shape="U", props=["C01", "C02", "C03", "C14", "C20"],
  unwind=5, covers=2, note="loop bound is the source constant 4: complete unwinding")
U("utf16_literal_to_utf8", "cjson", "harness/utf16_literal_to_utf8.c", enforce="utf16_literal_to_utf8", shape="U",
  props=["C01", "C02", "C03", "C14", "C20"], unwind=5, covers=3,
  note="all windows of every length; loops bounded by source constants 4 (hex) and 3 (continuation bytes)")
U("compare_double", "cjson", "harness/compare_double.c", enforce="compare_double", shape="U", props=["C12", "C04", "C14", "C20"], covers=3,
  note="bit-precise IEEE-754 over all pairs of doubles")
U("compare_double_sym", "cjson", "harness/compare_double_sym.c", no_contract=True, shape="U", props=["C12"], covers=1, funcs=["compare_double"],
  note="symmetry/reflexivity lemma on the real function, loop-free => complete")
U("buffer_skip_whitespace", "cjson", "harness/buffer_skip_whitespace.c", enforce="buffer_skip_whitespace", shape="U", loops=True,
  props=["C01", "C02", "C03", "C10", "C14", "C20"], covers=3, expect_loop_obligations=1,
  note="buffers of every length <= 2^47 through the loop contract")
U("skip_utf8_bom", "cjson", "harness/skip_utf8_bom.c", enforce="skip_utf8_bom", shape="U", props=["C01", "C02", "C03", "C14", "C20"], covers=3, unwind=6)
U("parse_number", "cjson", "harness/parse_number.c", enforce="parse_number", shape="U", tiers=(),
  props=["C01", "C02", "C03", "C10", "C14", "C20"], covers=3, unwind=66, timeout=(900, 1800),
  note="copy loop bounded by the source constant 63 and the strtod model's scan of the 64-byte stack buffer: complete unwinding (a loop contract is not usable: the loop is left by `goto`, which dfcc's loop instrumentation mishandles)")
U("parse_value", "cjson", "harness/parse_value.c", enforce="parse_value", shape="U", props=["C01", "C02", "C03", "C08", "C10", "C14", "C20"], covers=4, unwind=6,
  replace=["parse_string", "parse_number/parse_number_cv", "parse_array", "parse_object"],
  note="dispatch proved for every buffer; delegates replaced by contracts (callee views)")
U("parse_number_plain", "cjson", "harness/parse_number_plain.c", no_contract=True, shape="U", funcs=["parse_number"],
  props=["C01", "C02", "C03", "C10"], covers=3, unwind=66, timeout=(900, 1800),
  note="complete unwinding of the 63-byte copy loop without dfcc; pre/post stated by the harness")
U("cJSON_ParseWithLengthOpts", "cjson", "harness/cJSON_ParseWithLengthOpts.c", enforce="cJSON_ParseWithLengthOpts", shape="U", loops=True,
  expect_loop_obligations=1, props=["C10", "C01", "C02", "C03", "C08", "C14", "C20"], covers=5, unwind=6,
  replace=["parse_value", "cJSON_Delete"], timeout=(600, 1800),
  note="all buffers/lengths, both flags, with and without return_parse_end, both hook configurations, allocator may fail")
U("cJSON_ParseWithOpts", "cjson", "harness/cJSON_ParseWithOpts.c", enforce="cJSON_ParseWithOpts", shape="U", loops=True, expect_loop_obligations=1,
  props=["C10", "C01", "C02", "C14", "C20"], covers=3, replace=["cJSON_ParseWithLengthOpts"],
  note="strings of every length (strlen model with loop contract); callee replaced by its proved contract + ghost call log")
U("cJSON_Parse", "cjson", "harness/cJSON_Parse.c", enforce="cJSON_Parse", shape="U", props=["C01", "C02", "C14", "C20"], covers=2,
  replace=["cJSON_ParseWithOpts"], note="forwarding proved against the logged callee contract")
U("cJSON_ParseWithLength", "cjson", "harness/cJSON_ParseWithLength.c", enforce="cJSON_ParseWithLength", shape="U", props=["C01", "C02", "C14", "C20"], covers=2,
  replace=["cJSON_ParseWithLengthOpts"])
U("cJSON_GetErrorPtr", "cjson", "harness/cJSON_GetErrorPtr.c", enforce="cJSON_GetErrorPtr", shape="U", props=["C10", "C20"], covers=2,
  checks_off=["--pointer-overflow-check"], note="pointer-overflow check off: the code forms NULL + 0 after a successful parse (benign, but flagged by CBMC)")

# ---------------------------------------------------------------- cJSON.c : printing
U("ensure", "cjson", "harness/ensure.c", enforce="ensure", shape="U", props=["C04", "C07", "C08", "C09", "C14", "C20"], covers=4, unwind=4,
  timeout=(600, 1800), note="all buffer lengths 0..INT_MAX, all offsets, both growth paths, noalloc, failing allocator")
U("print_number", "cjson", "harness/print_number.c", enforce="print_number", shape="U", props=["C04", "C05", "C08", "C09", "C14", "C20"], covers=5,
  replace=["ensure"], unwind=27, timeout=(600, 1800), note="all doubles bit-precisely; copy loop bounded by the 26-byte stack buffer: complete unwinding")
U("print_value", "cjson", "harness/print_value.c", enforce="print_value", shape="U", loops=True, expect_loop_obligations=1,
  props=["C04", "C05", "C08", "C09", "C14", "C20"], covers=5, unwind=8,
  replace=["ensure", "print_number/print_number_cv", "print_string", "print_array", "print_object"],
  note="type dispatch for every type word; literal writers exact; raw copied through the strlen/memcpy models (pointwise at g_k)")
U("update_offset", "cjson", "harness/update_offset.c", enforce="update_offset", shape="U", loops=True, expect_loop_obligations=1, defs=["-DVF_STRLEN_HINT"],
  props=["C04", "C05", "C09", "C14", "C20"], covers=1, note="strlen model with a hinted terminator (loop contract): buffers of every length")
U("print", "cjson", "harness/print.c", enforce="print", shape="U", props=["C04", "C05", "C07", "C08", "C14", "C20"], covers=3, defs=["-DVF_VIEW_PV_ALLOC"],
  replace=["print_value", "update_offset"], timeout=(600, 1800),
  note="both final paths (realloc / allocate+copy+release), allocator may fail at every request; print_value/update_offset replaced by callee views")
U("cJSON_PrintBuffered", "cjson", "harness/cJSON_PrintBuffered.c", enforce="cJSON_PrintBuffered", shape="U", props=["C04", "C05", "C07", "C08", "C14", "C20"], covers=3,
  defs=["-DVF_VIEW_PV_ALLOC"], replace=["print_value"], timeout=(600, 1800))
U("cJSON_PrintPreallocated", "cjson", "harness/cJSON_PrintPreallocated.c", enforce="cJSON_PrintPreallocated", shape="U", props=["C05", "C08", "C09", "C14", "C20"], covers=3,
  defs=["-DVF_VIEW_PV_LOG"], replace=["print_value"])
U("cJSON_Print", "cjson", "harness/cJSON_Print.c", enforce="cJSON_Print", shape="U", props=["C04", "C05", "C14", "C20"], covers=1, replace=["print/print_cv"])
U("cJSON_PrintUnformatted", "cjson", "harness/cJSON_PrintUnformatted.c", enforce="cJSON_PrintUnformatted", shape="U", props=["C04", "C05", "C14", "C20"], covers=1, replace=["print/print_cv"])

# ---------------------------------------------------------------- cJSON.c : allocation leaves, hooks, scalars
U("cJSON_New_Item", "cjson", "harness/cJSON_New_Item.c", enforce="cJSON_New_Item", shape="U", props=["C06", "C07", "C08", "C14", "C20"], covers=2)
U("cJSON_strdup", "cjson", "harness/cJSON_strdup.c", enforce="cJSON_strdup", shape="U", loops=True, expect_loop_obligations=1, props=["C06", "C07", "C08", "C11", "C14", "C20"], covers=2,
  note="strings of every length (strlen loop-contract model, memcpy model exact at g_k/g_k2)")
U("cJSON_malloc", "cjson", "harness/cJSON_malloc.c", enforce="cJSON_malloc", shape="U", props=["C14", "C20"], covers=2)
U("cJSON_free", "cjson", "harness/cJSON_free.c", enforce="cJSON_free", shape="U", props=["C14", "C07", "C20"], covers=1)
U("cJSON_InitHooks", "cjson", "harness/cJSON_InitHooks.c", enforce="cJSON_InitHooks", shape="U", props=["C14", "C20"], covers=2)
U("cJSON_SetNumberHelper", "cjson", "harness/cJSON_SetNumberHelper.c", enforce="cJSON_SetNumberHelper", shape="U", props=["C06", "C20"], covers=2)
for _f in ("Null", "True", "False", "Array", "Object", "Bool", "Number"):
    U("cJSON_Create" + _f, "cjson", "harness/cJSON_Create%s.c" % _f, enforce="cJSON_Create" + _f, shape="U", props=["C06", "C07", "C08", "C14", "C20"], covers=2)

# ---------------------------------------------------------------- cJSON.c : sibling-chain surgery (poisoned window, any list length)
U("w_detach", "cjson", "harness/w_detach.c", no_contract=True, shape="W", funcs=["cJSON_DetachItemViaPointer"], props=["C06", "C07", "C19"], covers=5, unwind=8,
  note="window {head, prev, item, next, tail}; every other node is released before the call")
U("w_add_item_to_array", "cjson", "harness/w_add_item_to_array.c", no_contract=True, shape="W", funcs=["add_item_to_array", "suffix_object"], props=["C06", "C07", "C19"], covers=4, unwind=8,
  note="window {head, tail}")
U("w_insert", "cjson", "harness/w_insert.c", no_contract=True, shape="W", funcs=["cJSON_InsertItemInArray", "add_item_to_array"], props=["C06", "C19"], covers=6, unwind=8,
  replace=["get_array_item"], note="window {head, prev, indexed node, tail}; get_array_item replaced by its contract")
U("w_replace", "cjson", "harness/w_replace.c", no_contract=True, shape="W", funcs=["cJSON_ReplaceItemViaPointer"], props=["C06", "C07", "C19"], covers=6, unwind=8,
  replace=["cJSON_Delete"], note="window {head, prev, item, next, tail}; cJSON_Delete replaced by its contract (call logged)")

# ---------------------------------------------------------------- cJSON.c : references, keys, object helpers
U("create_reference", "cjson", "harness/create_reference.c", enforce="create_reference", shape="U", props=["C06", "C07", "C08", "C14", "C20"], covers=2)
U("add_item_to_object", "cjson", "harness/add_item_to_object.c", enforce="add_item_to_object", shape="U", props=["C06", "C07", "C08", "C14", "C20"], covers=5,
  replace=["cJSON_strdup/cJSON_strdup_cv", "add_item_to_array/add_item_to_array_cv"],
  note="includes the aliasing precondition: the key argument may be the item's own key")
U("cJSON_AddNullToObject", "cjson", "harness/cJSON_AddNullToObject.c", enforce="cJSON_AddNullToObject", shape="U", props=["C06", "C07", "C08", "C14", "C20"], covers=3, defs=["-DVF_CREATE_VIEWS"], replace=["cJSON_CreateNull", "add_item_to_object", "cJSON_Delete"])
U("cJSON_AddTrueToObject", "cjson", "harness/cJSON_AddTrueToObject.c", enforce="cJSON_AddTrueToObject", shape="U", props=["C06", "C07", "C08", "C14", "C20"], covers=3, defs=["-DVF_CREATE_VIEWS"], replace=["cJSON_CreateTrue", "add_item_to_object", "cJSON_Delete"])
U("cJSON_AddFalseToObject", "cjson", "harness/cJSON_AddFalseToObject.c", enforce="cJSON_AddFalseToObject", shape="U", props=["C06", "C07", "C08", "C14", "C20"], covers=3, defs=["-DVF_CREATE_VIEWS"], replace=["cJSON_CreateFalse", "add_item_to_object", "cJSON_Delete"])
U("cJSON_AddBoolToObject", "cjson", "harness/cJSON_AddBoolToObject.c", enforce="cJSON_AddBoolToObject", shape="U", props=["C06", "C07", "C08", "C14", "C20"], covers=3, defs=["-DVF_CREATE_VIEWS"], replace=["cJSON_CreateBool", "add_item_to_object", "cJSON_Delete"])
U("cJSON_AddNumberToObject", "cjson", "harness/cJSON_AddNumberToObject.c", enforce="cJSON_AddNumberToObject", shape="U", props=["C06", "C07", "C08", "C14", "C20"], covers=3, defs=["-DVF_CREATE_VIEWS"], replace=["cJSON_CreateNumber", "add_item_to_object", "cJSON_Delete"])
U("cJSON_AddStringToObject", "cjson", "harness/cJSON_AddStringToObject.c", enforce="cJSON_AddStringToObject", shape="U", props=["C06", "C07", "C08", "C14", "C20"], covers=3, defs=["-DVF_CREATE_VIEWS"], replace=["cJSON_CreateString", "add_item_to_object", "cJSON_Delete"])
U("cJSON_AddRawToObject", "cjson", "harness/cJSON_AddRawToObject.c", enforce="cJSON_AddRawToObject", shape="U", props=["C06", "C07", "C08", "C14", "C20"], covers=3, defs=["-DVF_CREATE_VIEWS"], replace=["cJSON_CreateRaw", "add_item_to_object", "cJSON_Delete"])
U("cJSON_AddObjectToObject", "cjson", "harness/cJSON_AddObjectToObject.c", enforce="cJSON_AddObjectToObject", shape="U", props=["C06", "C07", "C08", "C14", "C20"], covers=3, defs=["-DVF_CREATE_VIEWS"], replace=["cJSON_CreateObject", "add_item_to_object", "cJSON_Delete"])
U("cJSON_AddArrayToObject", "cjson", "harness/cJSON_AddArrayToObject.c", enforce="cJSON_AddArrayToObject", shape="U", props=["C06", "C07", "C08", "C14", "C20"], covers=3, defs=["-DVF_CREATE_VIEWS"], replace=["cJSON_CreateArray", "add_item_to_object", "cJSON_Delete"])
U("cJSON_CreateString", "cjson", "harness/cJSON_CreateString.c", enforce="cJSON_CreateString", shape="U", props=["C06", "C07", "C08", "C14", "C20"], covers=2,
  replace=["cJSON_strdup/cJSON_strdup_cv", "cJSON_Delete"])
U("cJSON_CreateRaw", "cjson", "harness/cJSON_CreateRaw.c", enforce="cJSON_CreateRaw", shape="U", props=["C06", "C07", "C08", "C14", "C20"], covers=2,
  replace=["cJSON_strdup/cJSON_strdup_cv", "cJSON_Delete"])
U("cJSON_CreateStringReference", "cjson", "harness/cJSON_CreateStringReference.c", enforce="cJSON_CreateStringReference", shape="U", props=["C06", "C07", "C08", "C14", "C20"], covers=2)
U("cJSON_CreateObjectReference", "cjson", "harness/cJSON_CreateObjectReference.c", enforce="cJSON_CreateObjectReference", shape="U", props=["C06", "C07", "C08", "C14", "C20"], covers=2)
U("cJSON_CreateArrayReference", "cjson", "harness/cJSON_CreateArrayReference.c", enforce="cJSON_CreateArrayReference", shape="U", props=["C06", "C07", "C08", "C14", "C20"], covers=2)
U("cJSON_AddItemReferenceToArray", "cjson", "harness/cJSON_AddItemReferenceToArray.c", enforce="cJSON_AddItemReferenceToArray", shape="U", props=["C06", "C07", "C08", "C14", "C20"], covers=3,
  defs=["-DVF_REF_VIEWS"], replace=["create_reference/create_reference_cv", "add_item_to_array/add_item_to_array_cv"])
U("cJSON_AddItemReferenceToObject", "cjson", "harness/cJSON_AddItemReferenceToObject.c", enforce="cJSON_AddItemReferenceToObject", shape="U", props=["C06", "C07", "C08", "C14", "C20"], covers=3,
  defs=["-DVF_REF_VIEWS"], replace=["create_reference/create_reference_cv", "add_item_to_object", "cJSON_Delete"])
U("replace_item_in_object", "cjson", "harness/replace_item_in_object.c", enforce="replace_item_in_object", shape="U", props=["C06", "C07", "C08", "C14", "C20"], covers=5,
  defs=["-DVF_RVP_VIEW"], replace=["cJSON_strdup/cJSON_strdup_cv", "cJSON_free/cJSON_free_cv", "get_object_item/get_object_item_cv", "cJSON_ReplaceItemViaPointer"],
  note="aliasing precondition: the key argument may be the replacement's own key")

# ---------------------------------------------------------------- cJSON.c : containers (skeleton units, children <= K)
U("parse_array", "cjson", "harness/parse_array.c", enforce="parse_array", shape="S", bound="children <= 3", object_bits=10,
  props=["C01", "C02", "C03", "C04", "C07", "C08", "C10", "C14", "C20"], covers=5, defs=["-DVF_CONTAINER_VIEWS"], unwindset=["parse_array.0:3"], bounded_loops=[r"parse_array.*\.unwind\."],
  replace=["cJSON_New_Item/cJSON_New_Item_cv", "parse_value/parse_value_cv", "cJSON_Delete/cJSON_Delete_chain_cv", "buffer_skip_whitespace/buffer_skip_whitespace_cv"], timeout=(900, 3000),
  note="element values arbitrary (recursive call replaced by its contract); only the element loop is cut at K")
U("parse_object", "cjson", "harness/parse_object.c", enforce="parse_object", shape="S", bound="members <= 3", object_bits=10,
  props=["C01", "C02", "C03", "C04", "C07", "C08", "C10", "C14", "C20"], covers=5, defs=["-DVF_CONTAINER_VIEWS"], unwindset=["parse_object.0:3"], bounded_loops=[r"parse_object.*\.unwind\."],
  replace=["cJSON_New_Item/cJSON_New_Item_cv", "parse_string/parse_string_cv", "parse_value/parse_value_cv", "cJSON_Delete/cJSON_Delete_chain_cv", "buffer_skip_whitespace/buffer_skip_whitespace_cv"], timeout=(900, 3000))
U("print_array", "cjson", "harness/print_array.c", enforce="print_array", shape="S", bound="children <= 2 (quick) / 3 (thorough)", object_bits=10, sat="minisat2",
  props=["C04", "C05", "C08", "C09", "C20"], covers=5, defs=["-DVF_PRINT_CONT"], tdefs={"quick": ["-DPA_K=2"], "thorough": ["-DPA_K=3"]}, unwindset=["print_array.0:4"],
  replace=["ensure/ensure_pc", "print_value/print_value_pc", "update_offset/update_offset_pc"], timeout=(900, 3000),
  note="element values arbitrary (recursive print_value replaced by a logging view); at most three children by precondition")
U("print_object_f0", "cjson", "harness/print_object.c", enforce="print_object", shape="S", bound="unformatted; members <= 1 (quick) / 2 (thorough); depth <= 2 (irrelevant without formatting)", object_bits=10, sat="minisat2", mem=30,
  props=["C04", "C05", "C08", "C09", "C20"], covers=5, defs=["-DVF_PRINT_CONT", "-DPO_FMT=0", "-Dh_print_object=h_print_object_f0"],
  tdefs={"quick": ["-DPO_K=1"], "thorough": ["-DPO_K=2"]}, unwindset=["print_object.0:5", "print_object.1:5", "print_object.2:5"],
  replace=["ensure/ensure_pc", "print_value/print_value_pc", "print_string_ptr/print_string_ptr_pc", "update_offset/update_offset_pc"], timeout=(900, 3000),
  note="member values and keys arbitrary (print_value / print_string_ptr replaced by logging views); member count bounded by precondition")
for _d, _tiers in ((0, ("quick", "thorough")), (1, ("thorough",)), (2, ("quick", "thorough"))):   # quick: no tabs before the closing brace (0) and the deepest (2)
    U("print_object_f1_d%d" % _d, "cjson", "harness/print_object.c", enforce="print_object", shape="S", tiers=_tiers, bound="formatted, nesting depth exactly %d; members <= 1 (quick) / 2 (thorough)" % _d, object_bits=10, sat="minisat2", mem=30,
      props=["C04", "C05", "C08", "C09", "C20"], covers=5, defs=["-DVF_PRINT_CONT", "-DPO_FMT=1", "-DPO_DEPTH=%d" % _d, "-Dh_print_object=h_print_object_f1_d%d" % _d],
      tdefs={"quick": ["-DPO_K=1"], "thorough": ["-DPO_K=2"]}, unwindset=["print_object.0:5", "print_object.1:5", "print_object.2:5"],
      replace=["ensure/ensure_pc", "print_value/print_value_pc", "print_string_ptr/print_string_ptr_pc", "update_offset/update_offset_pc"], timeout=(900, 3000),
      note="member values and keys arbitrary; one unit per nesting depth so that the tab reservations have concrete sizes")
U("cJSON_Delete", "cjson", "harness/cJSON_Delete.c", tiers=(), enforce="cJSON_Delete", rec=True, shape="S", bound="chain <= 2 nodes, children abstract", props=["C07", "C14", "C20"], covers=2,
  unwindset=["cJSON_Delete.0:3"], bounded_loops=[r"cJSON_Delete.*\.unwind\."], timeout=(900, 3000),
  note="recursive call cut by the contract (--enforce-contract-rec, opaque subtree tokens)")

# ---------------------------------------------------------------- cJSON.c : byte-writing loops (bounded units)
U("parse_string_b", "cjson", "harness/parse_string_b.c", no_contract=True, shape="B", bound="input <= 8 bytes (quick) / 12 (thorough)", funcs=["parse_string", "utf16_literal_to_utf8", "parse_hex4"],
  props=["C01", "C02", "C03", "C08", "C10"], covers=3, unwind=14, tdefs={"quick": ["-DPS_N=8"], "thorough": ["-DPS_N=12"]}, tunwind={"quick": 14, "thorough": 18}, timeout=(900, 3000),
  note="all byte strings up to the bound, all truncation points; compared with a reference decoder written from RFC 8259")
U("print_string_ptr_b", "cjson", "harness/print_string_ptr_b.c", no_contract=True, shape="B", bound="string <= 4 bytes (quick) / 6 (thorough)", funcs=["print_string_ptr", "ensure"],
  props=["C04", "C05", "C08", "C09"], covers=3, tdefs={"quick": ["-DPSP_N=4"], "thorough": ["-DPSP_N=6"]}, tunwind={"quick": 32, "thorough": 44}, timeout=(900, 3000),
  note="all byte strings up to the bound, every usable buffer length n; real ensure() in noalloc mode; compared with a reference encoder written from RFC 8259")
U("minify_b", "cjson", "harness/minify_b.c", no_contract=True, shape="B", bound="buffer <= 8 bytes; thorough adds idempotence (10 bytes did not finish in 3000 s)", funcs=["cJSON_Minify", "minify_string", "skip_oneline_comment", "skip_multiline_comment"],
  props=["C13"], covers=3, tdefs={"quick": ["-DMIN_S=8"], "thorough": ["-DMIN_S=8", "-DMIN_IDEMPOTENT"]}, tunwind={"quick": 10, "thorough": 10}, timeout=(900, 3000),
  note="all zero-terminated byte strings up to the bound; terminator is the last byte of the block")

# ---------------------------------------------------------------- cJSON_Utils.c
U("u_sort_b_1", "utils", "harness/u_sort_b.c", no_contract=True, shape="B", bound="exactly 1 members, 1-byte keys", funcs=["sort_object", "sort_list", "compare_strings"],
  props=["C19", "C16", "C17", "C18"], covers=2, defs=["-DSORT_N=1", "-Dh_u_sort_b=h_u_sort_b_1"], unwind=4, tiers=("quick", "thorough"), timeout=(900, 3000),
  note="plain unwinding of the recursive merge sort; all key multisets over 7-bit bytes, both case modes")
U("u_sort_b_2", "utils", "harness/u_sort_b.c", no_contract=True, shape="B", bound="exactly 2 members, 1-byte keys", funcs=["sort_object", "sort_list", "compare_strings"],
  props=["C19", "C16", "C17", "C18"], covers=2, defs=["-DSORT_N=2", "-Dh_u_sort_b=h_u_sort_b_2"], unwind=5, tiers=("quick", "thorough"), timeout=(900, 3000),
  note="plain unwinding of the recursive merge sort; all key multisets over 7-bit bytes, both case modes")
U("u_sort_b_3", "utils", "harness/u_sort_b.c", no_contract=True, shape="B", bound="exactly 3 members, 1-byte keys", funcs=["sort_object", "sort_list", "compare_strings"],
  props=["C19", "C16", "C17", "C18"], covers=2, defs=["-DSORT_N=3", "-Dh_u_sort_b=h_u_sort_b_3"], unwind=6, tiers=("quick", "thorough"), timeout=(900, 3000),
  note="plain unwinding of the recursive merge sort; all key multisets over 7-bit bytes, both case modes")
U("u_sort_b_4", "utils", "harness/u_sort_b.c", no_contract=True, shape="B", bound="exactly 4 members, 1-byte keys", funcs=["sort_object", "sort_list", "compare_strings"],
  props=["C19", "C16", "C17", "C18"], covers=2, defs=["-DSORT_N=4", "-Dh_u_sort_b=h_u_sort_b_4"], unwind=7, tiers=("thorough",), timeout=(900, 3000),
  note="plain unwinding of the recursive merge sort; all key multisets over 7-bit bytes, both case modes")
U("u_sort_sorted_3", "utils", "harness/u_sort_b.c", no_contract=True, shape="B", bound="exactly 3 members with strictly increasing keys", funcs=["sort_object", "sort_list"],
  props=["C19"], covers=1, defs=["-DSORT_N=3", "-DSORT_PRESORTED", "-Dh_u_sort_b=h_u_sort_sorted_3"], unwind=6, timeout=(900, 3000), note="idempotence: a sorted object is left untouched")
U("u_index_b", "utils", "harness/u_index_b.c", no_contract=True, shape="B", bound="token <= 22 bytes (complete for 64-bit size_t)", funcs=["decode_array_index_from_pointer"],
  props=["C15", "C16"], covers=3, unwind=25, note="all tokens; complete unwinding (20 digits is the longest index that can fit)")
U("u_pointer_codec_b", "utils", "harness/u_pointer_codec_b.c", no_contract=True, shape="B", bound="key <= 4 bytes, token <= 8 bytes (quick); 5/10 (thorough)",
  funcs=["compare_pointers", "pointer_encoded_length", "encode_string_as_pointer", "decode_pointer_inplace"], props=["C15", "C16", "C17"], covers=3,
  tdefs={"quick": ["-DPC_N=4"], "thorough": ["-DPC_N=5"]}, tunwind={"quick": 12, "thorough": 14}, timeout=(900, 3000))

# ---------------------------------------------------------------- cJSON.c : recursive tree functions on small symbolic trees (bounded)
U("print_b_00", "cjson", "harness/print_b.c", no_contract=True, shape="B", bound="tree shape: root + 0 children + 0 grandchild; no numbers, no escapes", funcs=["print_value", "print_array", "print_object", "print_string_ptr", "ensure", "update_offset", "cJSON_PrintPreallocated"],
  props=["C04", "C05", "C09"], covers=3, unwind=66, unwindset=["tabs.0:4", "ref_value.0:3", "ref_value.1:3", "ref_value:4", "print_value:4", "print_array:3", "print_object:3", "print_array.0:4", "print_object.0:4", "print_object.1:4", "print_object.2:4"], timeout=(900, 3000),
  defs=["-DPB_NC=0", "-DPB_NG=0", "-Dh_print_b=h_print_b_00"], note="real ensure() in noalloc mode; reference printer written from the documented layout")
U("print_b_10", "cjson", "harness/print_b.c", no_contract=True, shape="B", bound="tree shape: root + 1 children + 0 grandchild; no numbers, no escapes", funcs=["print_value", "print_array", "print_object", "print_string_ptr", "ensure", "update_offset", "cJSON_PrintPreallocated"],
  props=["C04", "C05", "C09"], covers=3, unwind=66, unwindset=["tabs.0:4", "ref_value.0:3", "ref_value.1:3", "ref_value:4", "print_value:4", "print_array:3", "print_object:3", "print_array.0:4", "print_object.0:4", "print_object.1:4", "print_object.2:4"], timeout=(900, 3000),
  defs=["-DPB_NC=1", "-DPB_NG=0", "-Dh_print_b=h_print_b_10"], note="real ensure() in noalloc mode; reference printer written from the documented layout")
U("print_b_20", "cjson", "harness/print_b.c", tiers=("thorough",), no_contract=True, shape="B", bound="tree shape: root + 2 children + 0 grandchild; no numbers, no escapes", funcs=["print_value", "print_array", "print_object", "print_string_ptr", "ensure", "update_offset", "cJSON_PrintPreallocated"],
  props=["C04", "C05", "C09"], covers=3, unwind=66, unwindset=["tabs.0:4", "ref_value.0:3", "ref_value.1:3", "ref_value:4", "print_value:4", "print_array:3", "print_object:3", "print_array.0:4", "print_object.0:4", "print_object.1:4", "print_object.2:4"], timeout=(900, 3000),
  defs=["-DPB_NC=2", "-DPB_NG=0", "-Dh_print_b=h_print_b_20"], note="real ensure() in noalloc mode; reference printer written from the documented layout")
U("print_b_11", "cjson", "harness/print_b.c", tiers=("thorough",), no_contract=True, shape="B", bound="tree shape: root + 1 children + 1 grandchild; no numbers, no escapes", funcs=["print_value", "print_array", "print_object", "print_string_ptr", "ensure", "update_offset", "cJSON_PrintPreallocated"],
  props=["C04", "C05", "C09"], covers=3, unwind=66, unwindset=["tabs.0:4", "ref_value.0:3", "ref_value.1:3", "ref_value:4", "print_value:4", "print_array:3", "print_object:3", "print_array.0:4", "print_object.0:4", "print_object.1:4", "print_object.2:4"], timeout=(900, 3000),
  defs=["-DPB_NC=1", "-DPB_NG=1", "-Dh_print_b=h_print_b_11"], note="real ensure() in noalloc mode; reference printer written from the documented layout")
U("print_b_21", "cjson", "harness/print_b.c", tiers=(),  # does not finish within 3000 s (measured in the thorough run): kept for reference, not part of any tier
   no_contract=True, shape="B", bound="tree shape: root + 2 children + 1 grandchild; no numbers, no escapes", funcs=["print_value", "print_array", "print_object", "print_string_ptr", "ensure", "update_offset", "cJSON_PrintPreallocated"],
  props=["C04", "C05", "C09"], covers=3, unwind=66, unwindset=["tabs.0:4", "ref_value.0:3", "ref_value.1:3", "ref_value:4", "print_value:4", "print_array:3", "print_object:3", "print_array.0:4", "print_object.0:4", "print_object.1:4", "print_object.2:4"], timeout=(900, 3000),
  defs=["-DPB_NC=2", "-DPB_NG=1", "-Dh_print_b=h_print_b_21"], note="real ensure() in noalloc mode; reference printer written from the documented layout")
U("delete_b", "cjson", "harness/delete_b.c", no_contract=True, shape="B", bound="trees <= 4 nodes, depth <= 2", funcs=["cJSON_Delete"], props=["C07", "C14"], covers=3, unwind=5,
  timeout=(900, 3000), note="all flag/type combinations; real recursion unwound")
U("duplicate_b_00", "cjson", "harness/duplicate_b.c", no_contract=True, shape="B", bound="tree shape: 0 children, 0 grandchild", funcs=["cJSON_Duplicate", "cJSON_Duplicate_rec"],
  props=["C11", "C07", "C08", "C14"], covers=3, unwind=6, unwindset=["cJSON_Delete.0:3", "cJSON_Delete:3", "cJSON_Duplicate_rec:4", "cJSON_Duplicate_rec.0:3", "vf_block.0:6"], timeout=(900, 3000), defs=["-DVF_BUILTIN_STRINGS", "-DVF_BUILTIN_MEMCPY", "-DT_SHAPE_CHILDREN=0", "-DT_SHAPE_GRAND=0", "-Dh_duplicate_b=h_duplicate_b_00"],
  note="all flag/type combinations, allocator may refuse every request; real recursion unwound")
U("duplicate_b_11", "cjson", "harness/duplicate_b.c", no_contract=True, shape="B", bound="tree shape: 1 children, 1 grandchild", funcs=["cJSON_Duplicate", "cJSON_Duplicate_rec"],
  props=["C11", "C07", "C08", "C14"], covers=3, unwind=6, unwindset=["cJSON_Delete.0:3", "cJSON_Delete:3", "cJSON_Duplicate_rec:4", "cJSON_Duplicate_rec.0:3", "vf_block.0:6"], timeout=(900, 3000), defs=["-DVF_BUILTIN_STRINGS", "-DVF_BUILTIN_MEMCPY", "-DT_SHAPE_CHILDREN=1", "-DT_SHAPE_GRAND=1", "-Dh_duplicate_b=h_duplicate_b_11"],
  note="all flag/type combinations, allocator may refuse every request; real recursion unwound")
U("duplicate_b_20", "cjson", "harness/duplicate_b.c", no_contract=True, shape="B", bound="tree shape: 2 children, 0 grandchild", funcs=["cJSON_Duplicate", "cJSON_Duplicate_rec"],
  props=["C11", "C07", "C08", "C14"], covers=3, unwind=6, unwindset=["cJSON_Delete.0:3", "cJSON_Delete:3", "cJSON_Duplicate_rec:4", "cJSON_Duplicate_rec.0:3", "vf_block.0:6"], timeout=(900, 3000), defs=["-DVF_BUILTIN_STRINGS", "-DVF_BUILTIN_MEMCPY", "-DT_SHAPE_CHILDREN=2", "-DT_SHAPE_GRAND=0", "-Dh_duplicate_b=h_duplicate_b_20"],
  note="all flag/type combinations, allocator may refuse every request; real recursion unwound")
U("duplicate_b_21", "cjson", "harness/duplicate_b.c", no_contract=True, shape="B", bound="tree shape: 2 children, 1 grandchild", funcs=["cJSON_Duplicate", "cJSON_Duplicate_rec"],
  props=["C11", "C07", "C08", "C14"], covers=3, unwind=6, unwindset=["cJSON_Delete.0:3", "cJSON_Delete:3", "cJSON_Duplicate_rec:4", "cJSON_Duplicate_rec.0:3", "vf_block.0:6"], timeout=(900, 3000), defs=["-DVF_BUILTIN_STRINGS", "-DVF_BUILTIN_MEMCPY", "-DT_SHAPE_CHILDREN=2", "-DT_SHAPE_GRAND=1", "-Dh_duplicate_b=h_duplicate_b_21"],
  note="all flag/type combinations, allocator may refuse every request; real recursion unwound")
U("compare_b_00", "cjson", "harness/compare_b.c", no_contract=True, shape="B", bound="first tree root + 0 children, second root + 0 children", funcs=["cJSON_Compare", "get_object_item", "case_insensitive_strcmp", "compare_double"],
  props=["C12"], covers=4, unwind=5, unwindset=["cJSON_Compare:3"], timeout=(900, 3000), defs=["-DVF_BUILTIN_STRINGS", "-DCMP_NA=0", "-DCMP_NB=0", "-Dh_compare_b=h_compare_b_00"],
  note="model equality from the property text; symmetry, reflexivity, no modification")
U("compare_b_11", "cjson", "harness/compare_b.c", no_contract=True, shape="B", bound="first tree root + 1 children, second root + 1 children", funcs=["cJSON_Compare", "get_object_item", "case_insensitive_strcmp", "compare_double"],
  props=["C12"], covers=4, unwind=5, unwindset=["cJSON_Compare:3"], timeout=(900, 3000), defs=["-DVF_BUILTIN_STRINGS", "-DCMP_NA=1", "-DCMP_NB=1", "-Dh_compare_b=h_compare_b_11"],
  note="model equality from the property text; symmetry, reflexivity, no modification")
U("compare_b_22", "cjson", "harness/compare_b.c", no_contract=True, shape="B", bound="first tree root + 2 children, second root + 2 children", funcs=["cJSON_Compare", "get_object_item", "case_insensitive_strcmp", "compare_double"],
  props=["C12"], covers=4, unwind=5, unwindset=["cJSON_Compare:3"], timeout=(900, 3000), defs=["-DVF_BUILTIN_STRINGS", "-DCMP_NA=2", "-DCMP_NB=2", "-Dh_compare_b=h_compare_b_22"],
  note="model equality from the property text; symmetry, reflexivity, no modification")
U("compare_b_21", "cjson", "harness/compare_b.c", no_contract=True, shape="B", bound="first tree root + 2 children, second root + 1 children", funcs=["cJSON_Compare", "get_object_item", "case_insensitive_strcmp", "compare_double"],
  props=["C12"], covers=4, unwind=5, unwindset=["cJSON_Compare:3"], timeout=(900, 3000), defs=["-DVF_BUILTIN_STRINGS", "-DCMP_NA=2", "-DCMP_NB=1", "-Dh_compare_b=h_compare_b_21"],
  note="model equality from the property text; symmetry, reflexivity, no modification")
U("u_pointer_b_00", "both", "harness/u_pointer_b.c", no_contract=True, shape="B", bound="document: root + 0 children + 0 grandchild; pointers <= 5 bytes (quick) / 6 (thorough)", funcs=["get_item_from_pointer", "decode_array_index_from_pointer", "compare_pointers", "cJSONUtils_GetPointerCaseSensitive"],
  props=["C15"], covers=4, tdefs={"quick": ["-DPT_N=5"], "thorough": ["-DPT_N=6"]}, tunwind={"quick": 8, "thorough": 9}, timeout=(900, 3000), defs=["-DPT_NC=0", "-DPT_NG=0", "-Dh_u_pointer_b=h_u_pointer_b_00"])
U("u_findpointer_b_00", "both", "harness/u_findpointer_b.c", no_contract=True, shape="B", bound="document: root + 0 children + 0 grandchild", funcs=["cJSONUtils_FindPointerFromObjectTo", "pointer_encoded_length", "encode_string_as_pointer", "get_item_from_pointer"],
  props=["C15"], covers=3, unwind=7, unwindset=["cJSONUtils_FindPointerFromObjectTo:4", "cJSONUtils_FindPointerFromObjectTo.0:3", "vf_block.0:26", "vf_put_dec.0:3", "vf_put_dec.1:21", "vf_put_str.0:10", "strcat.0:8", "get_item_from_pointer.0:4", "utils_get_array_item.0:4", "decode_array_index_from_pointer.0:4"], timeout=(900, 3000), defs=["-DPT_NC=0", "-DPT_NG=0", "-Dh_u_findpointer_b=h_u_findpointer_b_00"])
U("u_pointer_b_10", "both", "harness/u_pointer_b.c", no_contract=True, shape="B", bound="document: root + 1 children + 0 grandchild; pointers <= 5 bytes (quick) / 6 (thorough)", funcs=["get_item_from_pointer", "decode_array_index_from_pointer", "compare_pointers", "cJSONUtils_GetPointerCaseSensitive"],
  props=["C15"], covers=4, tdefs={"quick": ["-DPT_N=5"], "thorough": ["-DPT_N=6"]}, tunwind={"quick": 8, "thorough": 9}, timeout=(900, 3000), defs=["-DPT_NC=1", "-DPT_NG=0", "-Dh_u_pointer_b=h_u_pointer_b_10"])
U("u_findpointer_b_10", "both", "harness/u_findpointer_b.c", tiers=("thorough",), no_contract=True, shape="B", bound="document: root + 1 children + 0 grandchild", funcs=["cJSONUtils_FindPointerFromObjectTo", "pointer_encoded_length", "encode_string_as_pointer", "get_item_from_pointer"],
  props=["C15"], covers=3, unwind=7, unwindset=["cJSONUtils_FindPointerFromObjectTo:4", "cJSONUtils_FindPointerFromObjectTo.0:3", "vf_block.0:26", "vf_put_dec.0:3", "vf_put_dec.1:21", "vf_put_str.0:10", "strcat.0:8", "get_item_from_pointer.0:4", "utils_get_array_item.0:4", "decode_array_index_from_pointer.0:4"], timeout=(900, 3000), defs=["-DPT_NC=1", "-DPT_NG=0", "-Dh_u_findpointer_b=h_u_findpointer_b_10"])
U("u_pointer_b_20", "both", "harness/u_pointer_b.c", no_contract=True, shape="B", bound="document: root + 2 children + 0 grandchild; pointers <= 5 bytes (quick) / 6 (thorough)", funcs=["get_item_from_pointer", "decode_array_index_from_pointer", "compare_pointers", "cJSONUtils_GetPointerCaseSensitive"],
  props=["C15"], covers=4, tdefs={"quick": ["-DPT_N=5"], "thorough": ["-DPT_N=6"]}, tunwind={"quick": 8, "thorough": 9}, timeout=(900, 3000), defs=["-DPT_NC=2", "-DPT_NG=0", "-Dh_u_pointer_b=h_u_pointer_b_20"])
U("u_findpointer_b_20", "both", "harness/u_findpointer_b.c", tiers=("thorough",), no_contract=True, shape="B", bound="document: root + 2 children + 0 grandchild", funcs=["cJSONUtils_FindPointerFromObjectTo", "pointer_encoded_length", "encode_string_as_pointer", "get_item_from_pointer"],
  props=["C15"], covers=3, unwind=7, unwindset=["cJSONUtils_FindPointerFromObjectTo:4", "cJSONUtils_FindPointerFromObjectTo.0:3", "vf_block.0:26", "vf_put_dec.0:3", "vf_put_dec.1:21", "vf_put_str.0:10", "strcat.0:8", "get_item_from_pointer.0:4", "utils_get_array_item.0:4", "decode_array_index_from_pointer.0:4"], timeout=(900, 3000), defs=["-DPT_NC=2", "-DPT_NG=0", "-Dh_u_findpointer_b=h_u_findpointer_b_20"])
U("u_pointer_b_11", "both", "harness/u_pointer_b.c", no_contract=True, shape="B", bound="document: root + 1 children + 1 grandchild; pointers <= 5 bytes (quick) / 6 (thorough)", funcs=["get_item_from_pointer", "decode_array_index_from_pointer", "compare_pointers", "cJSONUtils_GetPointerCaseSensitive"],
  props=["C15"], covers=4, tdefs={"quick": ["-DPT_N=5"], "thorough": ["-DPT_N=6"]}, tunwind={"quick": 8, "thorough": 9}, timeout=(900, 3000), defs=["-DPT_NC=1", "-DPT_NG=1", "-Dh_u_pointer_b=h_u_pointer_b_11"])
U("u_findpointer_b_11", "both", "harness/u_findpointer_b.c", tiers=(),  # grandchild shapes: the concrete-size allocator bound (24) is too small for nested array paths (model assertion, a false alarm of the harness) / _21 times out; not in any tier
   no_contract=True, shape="B", bound="document: root + 1 children + 1 grandchild", funcs=["cJSONUtils_FindPointerFromObjectTo", "pointer_encoded_length", "encode_string_as_pointer", "get_item_from_pointer"],
  props=["C15"], covers=3, unwind=7, unwindset=["cJSONUtils_FindPointerFromObjectTo:4", "cJSONUtils_FindPointerFromObjectTo.0:3", "vf_block.0:26", "vf_put_dec.0:3", "vf_put_dec.1:21", "vf_put_str.0:10", "strcat.0:8", "get_item_from_pointer.0:4", "utils_get_array_item.0:4", "decode_array_index_from_pointer.0:4"], timeout=(900, 3000), defs=["-DPT_NC=1", "-DPT_NG=1", "-Dh_u_findpointer_b=h_u_findpointer_b_11"])
U("u_pointer_b_21", "both", "harness/u_pointer_b.c", no_contract=True, shape="B", bound="document: root + 2 children + 1 grandchild; pointers <= 5 bytes (quick) / 6 (thorough)", funcs=["get_item_from_pointer", "decode_array_index_from_pointer", "compare_pointers", "cJSONUtils_GetPointerCaseSensitive"],
  props=["C15"], covers=4, tdefs={"quick": ["-DPT_N=5"], "thorough": ["-DPT_N=6"]}, tunwind={"quick": 8, "thorough": 9}, timeout=(900, 3000), defs=["-DPT_NC=2", "-DPT_NG=1", "-Dh_u_pointer_b=h_u_pointer_b_21"])
U("u_findpointer_b_21", "both", "harness/u_findpointer_b.c", tiers=(),  # grandchild shapes: the concrete-size allocator bound (24) is too small for nested array paths (model assertion, a false alarm of the harness) / _21 times out; not in any tier
   no_contract=True, shape="B", bound="document: root + 2 children + 1 grandchild", funcs=["cJSONUtils_FindPointerFromObjectTo", "pointer_encoded_length", "encode_string_as_pointer", "get_item_from_pointer"],
  props=["C15"], covers=3, unwind=7, unwindset=["cJSONUtils_FindPointerFromObjectTo:4", "cJSONUtils_FindPointerFromObjectTo.0:3", "vf_block.0:26", "vf_put_dec.0:3", "vf_put_dec.1:21", "vf_put_str.0:10", "strcat.0:8", "get_item_from_pointer.0:4", "utils_get_array_item.0:4", "decode_array_index_from_pointer.0:4"], timeout=(900, 3000), defs=["-DPT_NC=2", "-DPT_NG=1", "-Dh_u_findpointer_b=h_u_findpointer_b_21"])
U("u_mergepatch_b_00", "both", "harness/u_mergepatch_b.c", no_contract=True, shape="B", bound="target: root + 0 members, patch: root + 0 members (members are leaves)", funcs=["merge_patch", "cJSONUtils_MergePatchCaseSensitive"],
  props=["C18"], covers=3, unwind=6, unwindset=["merge_patch:3", "merge_patch.0:3", "cJSON_Delete:3", "cJSON_Delete.0:3", "cJSON_Duplicate_rec:3", "cJSON_Duplicate_rec.0:3", "vf_block.0:6"], timeout=(900, 3000),
  defs=["-DMP_NT=0", "-DMP_NP=0", "-Dh_u_mergepatch_b=h_u_mergepatch_b_00"], note="RFC 7396 pseudo-code as reference; real Duplicate/Delete/Detach/Add underneath")
U("u_mergepatch_b_02", "both", "harness/u_mergepatch_b.c", mem=30, no_contract=True, shape="B", bound="target: root + 0 members, patch: root + 2 members (members are leaves)", funcs=["merge_patch", "cJSONUtils_MergePatchCaseSensitive"],
  props=["C18"], covers=3, unwind=6, unwindset=["merge_patch:3", "merge_patch.0:3", "cJSON_Delete:3", "cJSON_Delete.0:3", "cJSON_Duplicate_rec:3", "cJSON_Duplicate_rec.0:3", "vf_block.0:6"], timeout=(900, 3000),
  defs=["-DMP_NT=0", "-DMP_NP=2", "-Dh_u_mergepatch_b=h_u_mergepatch_b_02"], note="RFC 7396 pseudo-code as reference; real Duplicate/Delete/Detach/Add underneath")
U("u_mergepatch_b_20", "both", "harness/u_mergepatch_b.c", no_contract=True, shape="B", bound="target: root + 2 members, patch: root + 0 members (members are leaves)", funcs=["merge_patch", "cJSONUtils_MergePatchCaseSensitive"],
  props=["C18"], covers=3, unwind=6, unwindset=["merge_patch:3", "merge_patch.0:3", "cJSON_Delete:3", "cJSON_Delete.0:3", "cJSON_Duplicate_rec:3", "cJSON_Duplicate_rec.0:3", "vf_block.0:6"], timeout=(900, 3000),
  defs=["-DMP_NT=2", "-DMP_NP=0", "-Dh_u_mergepatch_b=h_u_mergepatch_b_20"], note="RFC 7396 pseudo-code as reference; real Duplicate/Delete/Detach/Add underneath")
U("u_mergepatch_b_22", "both", "harness/u_mergepatch_b.c", tiers=("thorough",), no_contract=True, shape="B", bound="target: root + 2 members, patch: root + 2 members (members are leaves)", funcs=["merge_patch", "cJSONUtils_MergePatchCaseSensitive"],
  props=["C18"], covers=3, unwind=6, unwindset=["merge_patch:3", "merge_patch.0:3", "cJSON_Delete:3", "cJSON_Delete.0:3", "cJSON_Duplicate_rec:3", "cJSON_Duplicate_rec.0:3", "vf_block.0:6"], timeout=(900, 3000),
  defs=["-DMP_NT=2", "-DMP_NP=2", "-Dh_u_mergepatch_b=h_u_mergepatch_b_22"], note="RFC 7396 pseudo-code as reference; real Duplicate/Delete/Detach/Add underneath")
U("u_mergepatch_b_12", "both", "harness/u_mergepatch_b.c", tiers=("thorough",), no_contract=True, shape="B", bound="target: root + 1 members, patch: root + 2 members (members are leaves)", funcs=["merge_patch", "cJSONUtils_MergePatchCaseSensitive"],
  props=["C18"], covers=3, unwind=6, unwindset=["merge_patch:3", "merge_patch.0:3", "cJSON_Delete:3", "cJSON_Delete.0:3", "cJSON_Duplicate_rec:3", "cJSON_Duplicate_rec.0:3", "vf_block.0:6"], timeout=(900, 3000),
  defs=["-DMP_NT=1", "-DMP_NP=2", "-Dh_u_mergepatch_b=h_u_mergepatch_b_12"], note="RFC 7396 pseudo-code as reference; real Duplicate/Delete/Detach/Add underneath")
U("lookups_b", "cjson", "harness/lookups_b.c", no_contract=True, shape="B", bound="containers <= 4 children, 1-byte keys", funcs=["cJSON_GetArraySize", "get_array_item", "cJSON_GetArrayItem", "get_object_item", "case_insensitive_strcmp", "cJSON_GetObjectItem", "cJSON_GetObjectItemCaseSensitive", "cJSON_HasObjectItem"],
  props=["C06"], covers=3, unwind=7, timeout=(900, 3000))
U("create_arrays_b_0m1", "cjson", "harness/create_arrays_b.c", no_contract=True, shape="B", bound="constructor 0 (0 int, 1 float, 2 double, 3 string), count -1", funcs=["cJSON_CreateIntArray", "cJSON_CreateFloatArray", "cJSON_CreateDoubleArray", "cJSON_CreateStringArray"],
  props=["C06", "C07", "C08"], covers=1, unwind=6, unwindset=["cJSON_Delete:3", "cJSON_Delete.0:5", "vf_block.0:6"], timeout=(900, 3000), defs=["-DCA_COUNT=(-1)", "-DCA_WHICH=0", "-Dh_create_arrays_b=h_create_arrays_b_0m1"])
U("create_arrays_b_00", "cjson", "harness/create_arrays_b.c", no_contract=True, shape="B", bound="constructor 0 (0 int, 1 float, 2 double, 3 string), count 0", funcs=["cJSON_CreateIntArray", "cJSON_CreateFloatArray", "cJSON_CreateDoubleArray", "cJSON_CreateStringArray"],
  props=["C06", "C07", "C08"], covers=2, unwind=6, unwindset=["cJSON_Delete:3", "cJSON_Delete.0:5", "vf_block.0:6"], timeout=(900, 3000), defs=["-DCA_COUNT=(0)", "-DCA_WHICH=0", "-Dh_create_arrays_b=h_create_arrays_b_00"])
U("create_arrays_b_03", "cjson", "harness/create_arrays_b.c", tiers=(),  # timed out at 3000 s in the thorough run
   no_contract=True, shape="B", bound="constructor 0 (0 int, 1 float, 2 double, 3 string), count 3", funcs=["cJSON_CreateIntArray", "cJSON_CreateFloatArray", "cJSON_CreateDoubleArray", "cJSON_CreateStringArray"],
  props=["C06", "C07", "C08"], covers=2, unwind=6, unwindset=["cJSON_Delete:3", "cJSON_Delete.0:5", "vf_block.0:6"], timeout=(900, 3000), defs=["-DCA_COUNT=(3)", "-DCA_WHICH=0", "-Dh_create_arrays_b=h_create_arrays_b_03"])
U("create_arrays_b_12", "cjson", "harness/create_arrays_b.c", tiers=("thorough",), no_contract=True, shape="B", bound="constructor 1 (0 int, 1 float, 2 double, 3 string), count 2", funcs=["cJSON_CreateIntArray", "cJSON_CreateFloatArray", "cJSON_CreateDoubleArray", "cJSON_CreateStringArray"],
  props=["C06", "C07", "C08"], covers=2, unwind=6, unwindset=["cJSON_Delete:3", "cJSON_Delete.0:5", "vf_block.0:6"], timeout=(900, 3000), defs=["-DCA_COUNT=(2)", "-DCA_WHICH=1", "-Dh_create_arrays_b=h_create_arrays_b_12"])
U("create_arrays_b_22", "cjson", "harness/create_arrays_b.c", tiers=("thorough",), no_contract=True, shape="B", bound="constructor 2 (0 int, 1 float, 2 double, 3 string), count 2", funcs=["cJSON_CreateIntArray", "cJSON_CreateFloatArray", "cJSON_CreateDoubleArray", "cJSON_CreateStringArray"],
  props=["C06", "C07", "C08"], covers=2, unwind=6, unwindset=["cJSON_Delete:3", "cJSON_Delete.0:5", "vf_block.0:6"], timeout=(900, 3000), defs=["-DCA_COUNT=(2)", "-DCA_WHICH=2", "-Dh_create_arrays_b=h_create_arrays_b_22"])
U("create_arrays_b_32", "cjson", "harness/create_arrays_b.c", tiers=("thorough",), no_contract=True, shape="B", bound="constructor 3 (0 int, 1 float, 2 double, 3 string), count 2", funcs=["cJSON_CreateIntArray", "cJSON_CreateFloatArray", "cJSON_CreateDoubleArray", "cJSON_CreateStringArray"],
  props=["C06", "C07", "C08"], covers=2, unwind=6, unwindset=["cJSON_Delete:3", "cJSON_Delete.0:5", "vf_block.0:6"], timeout=(900, 3000), defs=["-DCA_COUNT=(2)", "-DCA_WHICH=3", "-Dh_create_arrays_b=h_create_arrays_b_32"])
U("create_arrays_b_33", "cjson", "harness/create_arrays_b.c", tiers=(),  # timed out at 3000 s in the thorough run
   no_contract=True, shape="B", bound="constructor 3 (0 int, 1 float, 2 double, 3 string), count 3", funcs=["cJSON_CreateIntArray", "cJSON_CreateFloatArray", "cJSON_CreateDoubleArray", "cJSON_CreateStringArray"],
  props=["C06", "C07", "C08"], covers=2, unwind=6, unwindset=["cJSON_Delete:3", "cJSON_Delete.0:5", "vf_block.0:6"], timeout=(900, 3000), defs=["-DCA_COUNT=(3)", "-DCA_WHICH=3", "-Dh_create_arrays_b=h_create_arrays_b_33"])
U("setvaluestring_b", "cjson", "harness/setvaluestring_b.c", no_contract=True, shape="B", bound="old string <= 3 bytes, new string <= 4 bytes", funcs=["cJSON_SetValuestring"],
  props=["C06", "C07", "C08"], covers=4, unwind=8, timeout=(900, 3000), ignore_desc=[r"same object violation"],
  note="the overlap test in cJSON_SetValuestring compares pointers into unrelated objects (flagged by CBMC as 'same object violation'; benign on flat address spaces, not a claim of any property here)")
_AP_UW = ["cJSON_Delete:3", "cJSON_Delete.0:6", "cJSON_Duplicate_rec:3", "cJSON_Duplicate_rec.0:3", "sort_list:3", "sort_list.0:3", "sort_list.1:3", "sort_list.2:3", "compare_json:3", "compare_json.0:3", "compare_json.1:3", "mkstr.0:9"]
_AP_F = ["apply_patch", "cJSONUtils_ApplyPatchesCaseSensitive", "detach_path", "decode_patch_operation", "compare_json", "overwrite_item", "get_item_from_pointer"]
def _ap(name, nd, op, path, frm, value, extra=()):
    U("u_ap_" + name, "both", "harness/u_applypatch_b.c", no_contract=True, shape="B", bound="scenario: object document with %d members, op %s, path kind %d, from kind %d, value %d" % (nd, op, path, frm, value), funcs=_AP_F,
      props=["C16"], covers=1, unwind=8, unwindset=_AP_UW, timeout=(600, 1800),
      defs=["-DAP_ND=%d" % nd, "-DAP_OP=%d" % ("add remove replace move copy test bogus".split().index(op)), "-DAP_PATH=%d" % path, "-DAP_FROM=%d" % frm, "-DAP_VALUE=%d" % value, "-Dh_u_applypatch_b=h_u_ap_" + name] + list(extra),
      note="one enumerated scenario (member values symbolic); reference = RFC 6902 on a key/value model; ledger balance")
for _nd in (1, 2):
    for _p in (0, 1, 2):
        for _v in (0, 1):
            _ap("add_%d%d%d" % (_nd, _p, _v), _nd, "add", _p, 0, _v)
            _ap("replace_%d%d%d" % (_nd, _p, _v), _nd, "replace", _p, 0, _v)
            _ap("test_%d%d%d" % (_nd, _p, _v), _nd, "test", _p, 0, _v)
        _ap("remove_%d%d" % (_nd, _p), _nd, "remove", _p, 0, 0)
    for _p in (1, 2):
        for _f in (0, 1, 2, 3, 4):
            _ap("move_%d%d%d" % (_nd, _p, _f), _nd, "move", _p, _f, 0)
            _ap("copy_%d%d%d" % (_nd, _p, _f), _nd, "copy", _p, _f, 0)
    _ap("bogus_%d" % _nd, _nd, "bogus", 1, 0, 1)
_ap("remove_case", 2, "remove", 3, 0, 0)
_ap("replace_case", 2, "replace", 3, 0, 1)
_ap("move_case", 2, "move", 2, 5, 0)
_ap("add_case", 2, "add", 3, 0, 1)
for _i, (_ho, _os, _hp, _ps) in enumerate(((0, 1, 1, 1), (1, 0, 1, 1), (1, 1, 0, 1), (1, 1, 1, 0))):
    _ap("malformed_%d" % _i, 1, "add", 1, 2, 1, extra=["-DAP_MALFORMED", "-DAP_HASOP=%d" % _ho, "-DAP_OPSTR=%d" % _os, "-DAP_HASPATH=%d" % _hp, "-DAP_PATHSTR=%d" % _ps])
for _sc in range(6):
    U("u_genpatch_b_%d" % _sc, "both", "harness/u_genpatch_b.c", no_contract=True, shape="B", bound="enumerated scenario %d (see harness), member values in {0,1,2}" % _sc,
      funcs=["create_patches", "compose_patch", "cJSONUtils_GeneratePatchesCaseSensitive", "apply_patch", "sort_object", "encode_string_as_pointer"], props=["C17"], covers=2, unwind=8,
      unwindset=_AP_UW + ["create_patches:4", "create_patches.0:4", "create_patches.1:4", "create_patches.2:4", "create_patches.3:5", "cJSON_Compare:4", "vf_put_dec.0:3", "vf_put_dec.1:21", "vf_put_str.0:12"], timeout=(900, 3000),
      defs=["-DGP_SCEN=%d" % _sc, "-Dh_u_genpatch_b=h_u_genpatch_b_%d" % _sc], mem=30, tiers=(),
      note="attempted bounded stand-in for C17: only the scalar scenario (5) finishes; scenarios 0-4 exhaust 30 GB, so C17 is not claimed")

# ---------------------------------------------------------------- cJSON.c : thin public wrappers
U("cJSON_AddItemToArray", "cjson", "harness/cJSON_AddItemToArray.c", enforce="cJSON_AddItemToArray", shape="U", props=["C06", "C14", "C20"], covers=1, defs=[], replace=['add_item_to_array/add_item_to_array_cv'], note="thin wrapper: forwards to the proved helper (callee replaced by a logging view)")
U("cJSON_AddItemToObject", "cjson", "harness/cJSON_AddItemToObject.c", enforce="cJSON_AddItemToObject", shape="U", props=["C06", "C14", "C20"], covers=1, defs=[], replace=['add_item_to_object'], note="thin wrapper: forwards to the proved helper (callee replaced by a logging view)")
U("cJSON_AddItemToObjectCS", "cjson", "harness/cJSON_AddItemToObjectCS.c", enforce="cJSON_AddItemToObjectCS", shape="U", props=["C06", "C14", "C20"], covers=1, defs=[], replace=['add_item_to_object'], note="thin wrapper: forwards to the proved helper (callee replaced by a logging view)")
U("cJSON_GetArrayItem", "cjson", "harness/cJSON_GetArrayItem.c", enforce="cJSON_GetArrayItem", shape="U", props=["C06", "C20"], covers=2, replace=["get_array_item"])
U("cJSON_GetObjectItem", "cjson", "harness/cJSON_GetObjectItem.c", enforce="cJSON_GetObjectItem", shape="U", props=["C06", "C20"], covers=1, replace=["get_object_item/get_object_item_cv"])
U("cJSON_GetObjectItemCaseSensitive", "cjson", "harness/cJSON_GetObjectItemCaseSensitive.c", enforce="cJSON_GetObjectItemCaseSensitive", shape="U", props=["C06", "C20"], covers=1, replace=["get_object_item/get_object_item_cv"])
U("cJSON_DetachItemFromArray", "cjson", "harness/cJSON_DetachItemFromArray.c", enforce="cJSON_DetachItemFromArray", shape="U", props=["C06", "C20"], covers=2, defs=["-DVF_WRAPPER_VIEWS"], replace=["get_array_item", "cJSON_DetachItemViaPointer"])
U("cJSON_DetachItemFromObject", "cjson", "harness/cJSON_DetachItemFromObject.c", enforce="cJSON_DetachItemFromObject", shape="U", props=["C06", "C20"], covers=1, defs=["-DVF_WRAPPER_VIEWS", "-DVF_PUBVIEW_GetObjectItem"], replace=["cJSON_GetObjectItem", "cJSON_DetachItemViaPointer"])
U("cJSON_DetachItemFromObjectCaseSensitive", "cjson", "harness/cJSON_DetachItemFromObjectCaseSensitive.c", enforce="cJSON_DetachItemFromObjectCaseSensitive", shape="U", props=["C06", "C20"], covers=1, defs=["-DVF_WRAPPER_VIEWS", "-DVF_PUBVIEW_GetObjectItem"], replace=["cJSON_GetObjectItemCaseSensitive", "cJSON_DetachItemViaPointer"])
U("cJSON_DeleteItemFromArray", "cjson", "harness/cJSON_DeleteItemFromArray.c", enforce="cJSON_DeleteItemFromArray", shape="U", props=["C06", "C07", "C14", "C20"], covers=1, defs=["-DVF_WRAPPER_VIEWS", "-DVF_PUBVIEW_Detach"], replace=["cJSON_DetachItemFromArray", "cJSON_Delete"])
U("cJSON_DeleteItemFromObject", "cjson", "harness/cJSON_DeleteItemFromObject.c", enforce="cJSON_DeleteItemFromObject", shape="U", props=["C06", "C07", "C14", "C20"], covers=1, defs=["-DVF_WRAPPER_VIEWS", "-DVF_PUBVIEW_Detach"], replace=["cJSON_DetachItemFromObject", "cJSON_Delete"])
U("cJSON_DeleteItemFromObjectCaseSensitive", "cjson", "harness/cJSON_DeleteItemFromObjectCaseSensitive.c", enforce="cJSON_DeleteItemFromObjectCaseSensitive", shape="U", props=["C06", "C07", "C14", "C20"], covers=1, defs=["-DVF_WRAPPER_VIEWS", "-DVF_PUBVIEW_Detach"], replace=["cJSON_DetachItemFromObjectCaseSensitive", "cJSON_Delete"])
U("cJSON_ReplaceItemInArray", "cjson", "harness/cJSON_ReplaceItemInArray.c", enforce="cJSON_ReplaceItemInArray", shape="U", props=["C06", "C20"], covers=2, defs=["-DVF_RVP_VIEW"], replace=["get_array_item", "cJSON_ReplaceItemViaPointer"])
U("cJSON_ReplaceItemInObject", "cjson", "harness/cJSON_ReplaceItemInObject.c", enforce="cJSON_ReplaceItemInObject", shape="U", props=["C06", "C20"], covers=1, defs=["-DVF_WRAPPER_VIEWS"], replace=["replace_item_in_object/replace_item_in_object_cv"])
U("cJSON_ReplaceItemInObjectCaseSensitive", "cjson", "harness/cJSON_ReplaceItemInObjectCaseSensitive.c", enforce="cJSON_ReplaceItemInObjectCaseSensitive", shape="U", props=["C06", "C20"], covers=1, defs=["-DVF_WRAPPER_VIEWS"], replace=["replace_item_in_object/replace_item_in_object_cv"])
U("duplicate_depth", "cjson", "harness/duplicate_depth.c", no_contract=True, shape="U", funcs=["cJSON_Duplicate_rec"], props=["C11", "C08"], covers=2, unwind=4,
  unwindset=["cJSON_Duplicate_rec:3", "cJSON_Duplicate_rec.0:3", "cJSON_Delete:3", "cJSON_Delete.0:3", "vf_block.0:6"],
  note="nesting-limit clause for every node with a child (incl. a self-cycle); at most one level of real recursion is reachable, so the unwinding is complete")
for _sc in range(4):
    U("u_genmerge_b_%d" % _sc, "both", "harness/u_genmerge_b.c", no_contract=True, shape="B", bound="enumerated scenario %d (see harness), member values in {0,1,2}" % _sc,
      funcs=["generate_merge_patch", "cJSONUtils_GenerateMergePatchCaseSensitive", "merge_patch", "sort_object", "compare_json"], props=["C18"], covers=1, unwind=8,
      unwindset=_AP_UW + ["generate_merge_patch:4", "generate_merge_patch.0:5", "merge_patch:4", "merge_patch.0:4", "cJSON_Compare:4", "cJSONUtils_GenerateMergePatch:3"], timeout=(900, 3000),
      defs=["-DGM_SCEN=%d" % _sc, "-Dh_u_genmerge_b=h_u_genmerge_b_%d" % _sc], mem=30, tiers=())

# move on nested documents (incl. "moving a value into its own child", named by C16)
for _sc in (0, 1, 2, 3, 4, 5, 6):
    U("u_ap_nested_b_%d" % _sc, "both", "harness/u_ap_nested_b.c", no_contract=True, shape="B", bound="ONE concrete nested document and patch (scenario %d, see harness: moves across nesting levels, operations on array elements); scenarios 1 and 3 with a symbolic value" % _sc,
      funcs=_AP_F, props=["C16"], covers=1, unwind=8, unwindset=_AP_UW + ["mkstr.0:9", "healthy.0:6"], timeout=(600, 1800),
      defs=["-DAN_SCEN=%d" % _sc, "-Dh_u_ap_nested_b=h_u_ap_nested_b_%d" % _sc],
      note="status, ledger balance and tree health for move across nesting levels")
# array helpers of cJSON_Utils.c behind the patch operations on array elements
for _n in (0, 1, 3):
    U("u_array_get_b_%d" % _n, "both", "harness/u_array_helpers_b.c", no_contract=True, shape="B", bound="array of exactly %d elements, every 64-bit index" % _n,
      funcs=["get_array_item (cJSON_Utils.c)"], props=["C15", "C16"], covers=2, unwind=6,
      defs=["-DAH_N=%d" % _n, "-DAH_OP=2", "-Dh_u_array_helpers_b=h_u_array_get_b_%d" % _n],
      note="index lookup used by pointer resolution and by patch paths: exact for every size_t index")
for _op, _opn in ((0, "detach"), (1, "insert")):
    for _n in (0, 1, 2, 3):
        U("u_array_%s_b_%d" % (_opn, _n), "both", "harness/u_array_helpers_b.c", no_contract=True, shape="B", bound="array of exactly %d elements, every index 0..%d" % (_n, _n + 1),
          funcs=["detach_item_from_array" if _op == 0 else "insert_item_in_array"], props=["C16", "C06"], covers=2, unwind=6,
          defs=["-DAH_N=%d" % _n, "-DAH_OP=%d" % _op, "-Dh_u_array_helpers_b=h_u_array_%s_b_%d" % (_opn, _n)],
          note="list model: position, order of the others, chain health (next/prev mirror, first->prev == last)")

# compare_json: the equality behind the patch "test" operation and both generators
for _na, _nb, _tiers in ((0, 0, ("quick", "thorough")), (0, 1, ("quick", "thorough")), (1, 1, ("quick", "thorough")), (1, 2, ("quick", "thorough")), (2, 1, ("quick", "thorough")), (2, 2, ())):  # 22: does not finish in 3000 s with either SAT back end
    U("u_compare_json_b_%d%d" % (_na, _nb), "both", "harness/u_compare_json_b.c", no_contract=True, shape="B", tiers=_tiers, bound="first tree root + %d leaf children, second root + %d" % (_na, _nb),
      funcs=["compare_json", "sort_object", "sort_list", "compare_strings"], props=["C16", "C18"], covers=3, unwind=5, sat=("minisat2" if (_na, _nb) == (2, 2) else "cadical"),
      unwindset=["compare_json:3", "compare_json.0:4", "compare_json.1:4", "sort_list:3", "sort_list.0:3", "sort_list.1:3", "sort_list.2:3"], timeout=(900, 3000),
      defs=["-DCJ_NA=%d" % _na, "-DCJ_NB=%d" % _nb, "-Dh_u_compare_json_b=h_u_compare_json_b_%d%d" % (_na, _nb)],
      note="model equality of JSON values against compare_json for every pair of trees of this shape; both case modes")

# fully concrete scenarios for the generators (one input each; supplementary, not a decision procedure for C17/C18)
for _sc in range(7):
    for _seed in ((0, 1) if _sc < 5 else (0,)):
        U("u_genmerge_c_%d%d" % (_sc, _seed), "both", "harness/u_genmerge_b.c", no_contract=True, shape="B", bound="ONE concrete input: scenario %d, value seed %d" % (_sc, _seed),
          funcs=["generate_merge_patch", "cJSONUtils_GenerateMergePatchCaseSensitive", "merge_patch", "sort_object", "compare_json"], props=["C18"], covers=1, unwind=8,
          unwindset=[w.replace("cJSON_Duplicate_rec.0:3", "cJSON_Duplicate_rec.0:5").replace("cJSON_Delete.0:6", "cJSON_Delete.0:8") for w in _AP_UW] + ["generate_merge_patch:4", "generate_merge_patch.0:5", "merge_patch:4", "merge_patch.0:4", "cJSON_Compare:4", "cJSON_Compare.0:5", "cJSONUtils_GenerateMergePatch:3"], timeout=(600, 1800),
          defs=["-DGM_SCEN=%d" % _sc, "-DGM_CONCRETE=%d" % _seed, "-Dh_u_genmerge_b=h_u_genmerge_c_%d%d" % (_sc, _seed)])

# ---------------------------------------------------------------- cJSON_Utils.c under DFCC: thin public wrappers (first contract units on this file)
for _fn, _kind, _callee, _props in (("cJSONUtils_GetPointer", 0, "get_item_from_pointer", ["C15"]), ("cJSONUtils_GetPointerCaseSensitive", 0, "get_item_from_pointer", ["C15"]),
                                    ("cJSONUtils_MergePatch", 1, "merge_patch", ["C18"]), ("cJSONUtils_MergePatchCaseSensitive", 1, "merge_patch", ["C18"]),
                                    ("cJSONUtils_GenerateMergePatch", 1, "generate_merge_patch", ["C18"]), ("cJSONUtils_GenerateMergePatchCaseSensitive", 1, "generate_merge_patch", ["C18"]),
                                    ("cJSONUtils_SortObject", 2, "sort_object", ["C19"]), ("cJSONUtils_SortObjectCaseSensitive", 2, "sort_object", ["C19"])):
    U(_fn, "utils", "harness/u_wrappers.c", enforce=_fn, shape="U", props=_props + ["C20"], covers=2, replace=[_callee],
      defs=["-DVF_UTILS_WRAPPERS", "-DUW_FN=%s" % _fn, "-DUW_KIND=%d" % _kind, "-DUW_H=h_%s" % _fn],
      note="thin wrapper of cJSON_Utils.c: exactly one call of the worker with the caller's arguments and the promised case mode; its answer is returned; frame = the call log only")
for _fn in ("cJSONUtils_ApplyPatches", "cJSONUtils_ApplyPatchesCaseSensitive"):
    U(_fn, "utils", "harness/u_applypatches.c", enforce=_fn, shape="S", bound="patch array of <= 2 operations (each operation arbitrary: apply_patch replaced by a logging view)", props=["C16", "C20"], covers=5,
      replace=["apply_patch", "cJSON_IsArray"], unwind=4, defs=["-DVF_UTILS_WRAPPERS", "-DAP_FN=%s" % _fn, "-DAP_H=h_%s" % _fn],
      note="operations applied in document order to the same object with the promised case mode; stops at the first non-zero status and returns it; a non-array is refused with 1 and no call")
U("cJSON_IsArray", "cjson", "harness/cJSON_IsArray.c", enforce="cJSON_IsArray", shape="U", props=["C06", "C16", "C20"], covers=2,
  note="the contract text the cJSON_Utils.c units use in place of the function (specs/c_isarray.h)")

# ---------------------------------------------------------------- cJSON.c: type predicates, value getters, print_string (specs/c_preds.h)
for _fn in ("cJSON_IsInvalid", "cJSON_IsFalse", "cJSON_IsTrue", "cJSON_IsBool", "cJSON_IsNull", "cJSON_IsNumber", "cJSON_IsString", "cJSON_IsObject", "cJSON_IsRaw"):
    U(_fn, "cjson", "harness/c_preds.c", enforce=_fn, shape="U", props=["C06", "C12", "C20"], covers=3,
      defs=["-DVF_PRED_ENF", "-DPD_KIND=0", "-DPD_FN=%s" % _fn, "-DPD_H=h_%s" % _fn], note="type predicate: true exactly for a non-NULL node whose low type byte is the named type")
U("cJSON_GetStringValue", "cjson", "harness/c_preds.c", enforce="cJSON_GetStringValue", shape="U", props=["C06", "C20"], covers=3, replace=["cJSON_IsString"],
  defs=["-DPD_KIND=1", "-DPD_H=h_cJSON_GetStringValue"], note="the value string of a String node, NULL otherwise (cJSON_IsString replaced by its proved contract)")
U("cJSON_GetNumberValue", "cjson", "harness/c_preds.c", enforce="cJSON_GetNumberValue", shape="U", props=["C06", "C20"], covers=3, replace=["cJSON_IsNumber"],
  defs=["-DPD_KIND=2", "-DPD_H=h_cJSON_GetNumberValue"], note="the double of a Number node, NaN otherwise (cJSON_IsNumber replaced by its proved contract)")
U("print_string", "cjson", "harness/c_preds.c", enforce="print_string", shape="U", props=["C05", "C04", "C20"], covers=3, replace=["print_string_ptr"],
  defs=["-DPD_KIND=3", "-DPD_H=h_print_string"], note="forwards the node's value string and the buffer to print_string_ptr (logging view) and returns its answer")
U("cJSON_HasObjectItem", "cjson", "harness/c_preds.c", enforce="cJSON_HasObjectItem", shape="U", props=["C06", "C20"], covers=3, replace=["cJSON_GetObjectItem"],
  defs=["-DVF_WRAPPER_VIEWS", "-DVF_PUBVIEW_GetObjectItem", "-DPD_KIND=4", "-DPD_H=h_cJSON_HasObjectItem"], note="thin wrapper: one case-insensitive lookup with the caller's arguments, 1 exactly when a member is found")
for _fn in ("cJSONUtils_GeneratePatches", "cJSONUtils_GeneratePatchesCaseSensitive"):
    U(_fn, "utils", "harness/u_wrappers.c", enforce=_fn, shape="U", props=["C20"], covers=3, replace=["create_patches", "cJSON_CreateArray"],
      defs=["-DVF_UTILS_WRAPPERS", "-DUW_FN=%s" % _fn, "-DUW_KIND=3", "-DUW_H=h_%s" % _fn],
      note="frame only (C20): the entry point writes nothing but through cJSON_CreateArray / create_patches; the forwarding clause is tagged C17, which is not claimed")
# merge patch two levels down (the recursion's own arguments): enumerated nested scenarios
for _sc in (0, 1, 2):
    U("u_mergepatch_n_%d" % _sc, "both", "harness/u_mergepatch_n.c", no_contract=True, shape="B", bound="ONE nested target/patch shape (scenario %d, see harness), member values symbolic" % _sc,
      funcs=["merge_patch", "cJSONUtils_MergePatchCaseSensitive"], props=["C18"], covers=1, unwind=8,
      unwindset=_AP_UW + ["merge_patch:4", "merge_patch.0:4", "healthy.0:6", "count.0:7", "case_insensitive_strcmp.0:5"], timeout=(600, 1800),
      defs=["-DMN_SCEN=%d" % _sc, "-Dh_u_mergepatch_n=h_u_mergepatch_n_%d" % _sc],
      note="nested objects recurse with the caller's case mode: exact key replaced / deleted / added two levels down, case twin untouched; ledger")
U("u_get_object_item", "utils", "harness/u_wrappers.c", enforce="get_object_item", shape="U", props=["C15", "C16", "C20"], covers=2, replace=["cJSON_GetObjectItem", "cJSON_GetObjectItemCaseSensitive"],
  funcs=["get_object_item (cJSON_Utils.c)"], defs=["-DVF_UTILS_WRAPPERS", "-DUW_FN=get_object_item", "-DUW_KIND=4", "-DUW_H=h_u_get_object_item"],
  note="case-mode dispatcher of cJSON_Utils.c: exactly one public lookup, the case-sensitive one iff case_sensitive, with the caller's arguments; answer returned")
