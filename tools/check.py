#!/usr/bin/env python3
"""Per-property check:  check.py <Cxx> [--tier quick|thorough]
exit 0: every obligation deciding the property was discharged (or is a listed known finding)
exit 1: VIOLATION property=<id> replay=<path> [no-failing-input-found]
exit 2: undecided (tool limit, extraction broke, vacuity guard) -- never reported as a violation"""
import os, sys, re, json, time, shutil, argparse, concurrent.futures as cf

HERE = os.path.dirname(os.path.abspath(__file__))
VERIF = os.path.dirname(HERE)
sys.path.insert(0, HERE)
import driver, annotate, units, propinfo

def klass(o):
    d = o["desc"]
    if "is assignable" in d or "assigns clause" in d or "is freeable" in d or "frees clause" in d:
        return "frame"
    if d.startswith("Check requires clause"):
        return "precondition"
    if "ensures clause" in d or ".postcondition." in o["name"]:
        return "postcondition"
    if "loop" in o["name"]:
        return "loop"
    if "unwinding assertion" in d or ".unwind." in o["name"]:
        return "unwind"
    if "function pointer" in d:
        return "fnptr"
    return "safety"

def relevant(prop, u, o):
    k = klass(o)
    if o.get("tags") is not None:
        return prop in o["tags"]
    if prop == "C20":
        return k == "frame"
    if prop == "C14":
        return k == "fnptr"
    return prop in u.safety_props

def load_known():
    known, fixed = [], []
    p = os.path.join(VERIF, "known_findings.txt")
    if os.path.exists(p):
        for line in open(p):
            line = line.strip()
            if line.startswith("known:"):
                m = re.match(r"known:\s+property=(\S+)\s+unit=(\S+)\s+obligation=(\S+)\s+--\s+(.*)", line)
                if m:
                    known.append({"property": m.group(1), "unit": m.group(2), "obligation": m.group(3), "text": m.group(4)})
            elif line.startswith("fixed:"):
                fixed.append(line)
    return known, fixed

def scan_assumptions():
    """mechanical scan for assume/havoc in specs and harnesses (listed in the evidence, never hidden)"""
    out = []
    for d in ("specs", "harness"):
        for root, _, files in os.walk(os.path.join(VERIF, d)):
            for f in sorted(files):
                p = os.path.join(root, f)
                try:
                    txt = open(p).read()
                except OSError:
                    continue
                n = len(re.findall(r"__CPROVER_assume\s*\(", txt))
                if n:
                    out.append("%s/%s: %d __CPROVER_assume (input-domain or model constraints)" % (d, f, n))
    return out

def write_replay(prop, u, o, r, idx):
    os.makedirs(os.path.join(VERIF, "replays"), exist_ok=True)
    path = os.path.join(VERIF, "replays", "%s_%s_%d.txt" % (prop, u.name, idx))
    with open(path, "w") as f:
        f.write("property: %s\nunit: %s (shape %s)\nfailed obligation: %s\ndescription: %s\nlocation: %s:%s (function %s)\n" % (
            prop, u.name, u.shape, o["name"], o["desc"], o["file"], o["line"], o["function"]))
        f.write("clause tags: %s\n" % (o.get("tags"),))
        f.write("instrumentation: %s\nchecker: %s\n" % (r.get("dfcc_cmd", "(none)"), r.get("checker_cmd", "")))
        f.write("reproduce: cd /verif && TRACE=1 python3 tools/driver.py %s %s\n" % (u.name, r.get("tier", "quick")))
        f.write("\nverifier counterexample (assignments along the failing path; values of the harness inputs are the `dynamic_object`/argument lines):\n")
        for s in o.get("trace", []):
            f.write("  " + json.dumps(s) + "\n")
    return path

def native_replay(prop, u, o, r, path):
    """units may register a native replayer: returns True if the failure reproduced on the real code"""
    fn = getattr(propinfo, "REPLAYERS", {}).get(u.name)
    if fn is None:
        return False
    try:
        return bool(fn(o, r, path))
    except Exception as ex:
        open(path, "a").write("\nnative replay raised: %r\n" % (ex,))
        return False

def main():
    ap = argparse.ArgumentParser()
    ap.add_argument("prop")
    ap.add_argument("--tier", default=os.environ.get("VERIF_TIER", "quick"))
    ap.add_argument("--jobs", type=int, default=int(os.environ.get("VERIF_JOBS", "12")))
    ap.add_argument("--no-cache", action="store_true")
    a = ap.parse_args()
    prop, tier = a.prop, a.tier
    if tier not in ("quick", "thorough"):
        tier = "quick"
    t0 = time.time()
    seed = int(os.environ.get("VERIF_SEED", "0") or 0)
    info = propinfo.PROPS.get(prop)
    if info is None:
        print("unknown or unclaimed property", prop); return 2
    try:
        scratch, report = driver.make_scratch()
    except annotate.AnnotateError as ex:
        print("UNDECIDED property=%s reason=extraction-broke: %s" % (prop, ex))
        return 2
    sel = [u for u in units.UNITS.values() if prop in u.props and tier in u.tiers]
    results = {}
    try:
        with cf.ThreadPoolExecutor(max_workers=a.jobs) as ex:
            futs = {ex.submit(driver.run_unit, u, scratch, tier, not a.no_cache): u for u in sel}
            for f in cf.as_completed(futs):
                u = futs[f]
                try:
                    results[u.name] = f.result()
                except Exception as e:
                    results[u.name] = {"unit": u.name, "status": "undecided", "reason": "driver exception %r" % (e,), "obligations": [], "wall_s": 0, "solver_s": 0}
    finally:
        shutil.rmtree(scratch, ignore_errors=True)
    known, fixed = load_known()
    violations, knowns, undecided = [], [], []
    static_facts = []
    if prop == "C20":
        # supporting static fact (syntactic, from the extraction report; NOT a proof obligation): functions that run only inside bounded plain
        # harnesses (most of cJSON_Utils.c) have no DFCC frame check, so a mutable function-local static there would escape the assigns
        # obligations.  Rule R3 reports every function-local static it hoists; a mutable one outside the inventory below is shared state.
        allowed = {("cJSON.c", "cJSON_Version", "version")}   # written by cJSON_Version only (not one of the operations C20 ranges over)
        for line in report:
            m = re.match(r"R3 (\S+): (\w+)::(\w+) -> file-scope (\w+) \[(const|mutable)\]", line)
            if m:
                static_facts.append(line)
                if m.group(5) == "mutable" and (m.group(1), m.group(2), m.group(3)) not in allowed:
                    os.makedirs(os.path.join(VERIF, "replays"), exist_ok=True)
                    path = os.path.join(VERIF, "replays", "C20_static_%s_%s.txt" % (m.group(2), m.group(3)))
                    open(path, "w").write("property: C20\nfailed obligation: static-inventory (supporting static fact, tools/annotate.py rule R3)\n"
                        "finding: function %s in %s declares the mutable function-local static `%s`: an object of static storage duration that every thread calling the function shares, "
                        "outside the documented shared state (global error record, hooks).\nextraction report line: %s\n" % (m.group(2), m.group(1), m.group(3), line))
                    print("VIOLATION property=C20 replay=%s no-failing-input-found" % path)
                    print("  mutable function-local static %s::%s in %s (static inventory)" % (m.group(2), m.group(3), m.group(1)))
                    violations.append((None, {"name": "static-inventory", "desc": line, "file": m.group(1), "line": 0, "function": m.group(2), "status": "FAILURE", "tags": ["C20"]}, {}))
        # the same fact for FILE-scope objects (tools/filescope.py): a cache or scratch variable placed at file scope and written by a function that
        # only runs in plain bounded harnesses (lookups, most of cJSON_Utils.c) has no frame obligation either.  Inventory: the error record and the hooks.
        import filescope
        allowed_fs = {("cJSON.c", "global_error"), ("cJSON.c", "global_hooks")}
        for fn_ in ("cJSON.c", "cJSON_Utils.c"):
            try:
                objs = filescope.file_scope_objects(os.path.join(driver.REPO, fn_))
            except OSError:
                objs = []
            for (f_, name_, kind_, decl_) in objs:
                static_facts.append("file-scope %s: %s [%s] %s" % (f_, name_, kind_, decl_))
                if kind_ == "mutable" and (f_, name_) not in allowed_fs:
                    os.makedirs(os.path.join(VERIF, "replays"), exist_ok=True)
                    path = os.path.join(VERIF, "replays", "C20_filescope_%s.txt" % name_)
                    open(path, "w").write("property: C20\nfailed obligation: static-inventory (supporting static fact, tools/filescope.py)\n"
                        "finding: %s defines the mutable file-scope object `%s` (%s): an object of static storage duration shared by every thread, "
                        "outside the documented shared state (global error record, hooks).\n" % (f_, name_, decl_))
                    print("VIOLATION property=C20 replay=%s no-failing-input-found" % path)
                    print("  mutable file-scope object %s in %s (static inventory)" % (name_, f_))
                    violations.append((None, {"name": "static-inventory", "desc": "file-scope %s" % name_, "file": f_, "line": 0, "function": name_, "status": "FAILURE", "tags": ["C20"]}, {}))
    n_ob = n_ok = 0
    n_ob_b = n_ok_b = 0
    per_unit = []
    samples = []
    funcs = set()
    for u in sel:
        r = results[u.name]
        if r["status"] != "done":
            undecided.append((u, r))
            per_unit.append({"unit": u.name, "shape": u.shape, "status": "undecided", "reason": r.get("reason", "")[:300]})
            continue
        # a call of a function that has neither a body nor a model in the unit (CBMC's "no body for callee" obligation): every value the
        # callee returns is arbitrary, so whatever fails after it proves nothing -- undecided, never a violation (false-alarm discipline)
        nobody = [o for o in r["obligations"] if o["status"] == "FAILURE" and ".no-body." in o["name"]]
        if nobody:
            r = dict(r, status="undecided", reason="call of a function without body or model: " + ", ".join(sorted(set(o["name"].split(".no-body.")[1] for o in nobody))))
            undecided.append((u, r))
            per_unit.append({"unit": u.name, "shape": u.shape, "status": "undecided", "reason": r["reason"][:300]})
            continue
        rel = [o for o in r["obligations"] if relevant(prop, u, o)]
        # in S units the element loop is deliberately cut at K: its unwinding assertion is the bound, not a claim
        if u.shape in ("S", "B"):
            rel = [o for o in rel if not (klass(o) == "unwind" and any(re.search(p, o["name"]) for p in getattr(u, "bounded_loops", [])))]
        ok = [o for o in rel if o["status"] == "SUCCESS"]
        bad = [o for o in rel if o["status"] == "FAILURE"]
        unk = [o for o in rel if o["status"] not in ("SUCCESS", "FAILURE")]
        if unk and not [o for o in r["obligations"] if o["status"] == "FAILURE"]:
            undecided.append((u, dict(r, reason="%d obligations UNKNOWN without any FAILURE" % len(unk))))
        if u.shape in ("U", "W"):
            n_ob += len(rel); n_ok += len(ok)
        else:
            n_ob_b += len(rel); n_ok_b += len(ok)
        funcs.update(u.funcs)
        per_unit.append({"unit": u.name, "shape": u.shape, "bound": u.bound, "functions": u.funcs, "obligations": len(rel), "discharged": len(ok),
                         "all_unit_obligations": len(r["obligations"]), "solver_s": r.get("solver_s"), "cached": r.get("cached", False),
                         "backend": r.get("backend"), "loop_contracts": r.get("loop_contracts_checked", []),
                         "covers_reachable": len([c for c in r.get("covers", []) if c["status"] == "satisfied"]), "note": u.note})
        for o in [x for x in rel if klass(x) == "postcondition"][:2]:
            samples.append({"unit": u.name, "obligation": o["name"], "desc": o["desc"], "at": "%s:%s" % (o["file"], o["line"]), "status": o["status"]})
        for o in bad:
            kn = [k for k in known if k["property"] == prop and k["unit"] == u.name and re.fullmatch(k["obligation"], o["name"])]
            if kn:
                knowns.append((u, o, kn[0]))
            else:
                violations.append((u, o, r))
    rc = 0
    for (u, o, k) in knowns:
        print("KNOWN-FINDING: property=%s %s [unit %s obligation %s]" % (prop, k["text"], u.name, o["name"]))
    shown = {}
    for i, (u, o, r) in enumerate(violations):
        if u is None:          # static-inventory finding, already reported above
            rc = 1
            continue
        shown[u.name] = shown.get(u.name, 0) + 1
        if shown[u.name] > 3:      # at most three VIOLATION lines per unit; the rest is summarised below and in the evidence
            continue
        path = write_replay(prop, u, o, r, i)
        repro = native_replay(prop, u, o, r, path)
        print("VIOLATION property=%s replay=%s%s" % (prop, path, "" if repro else " no-failing-input-found"))
        print("  failed obligation %s (%s) at %s:%s in unit %s" % (o["name"], o["desc"], o["file"], o["line"], u.name))
        rc = 1
    for name, cnt in shown.items():
        if cnt > 3:
            print("  (+%d more failed obligations in unit %s)" % (cnt - 3, name))
    for (u, r) in undecided:
        print("UNDECIDED property=%s unit=%s reason=%s" % (prop, u.name, r.get("reason", "")[:400].replace("\n", " ")))
        if rc == 0:
            rc = 2
    wall = time.time() - t0
    proof_units = [p for p in per_unit if p.get("shape") in ("U", "W") and p.get("status") != "undecided"]
    bounded_units = [p for p in per_unit if p.get("shape") in ("S", "B") and p.get("status") != "undecided"]
    cov = {
        "obligations": n_ob, "discharged": n_ok,
        "checker_cmd": "python3 tools/check.py %s --tier %s   (per unit: goto-cc; goto-instrument --add-library; goto-instrument --dfcc <h> --enforce-contract <f> [--replace-call-with-contract g] [--apply-loop-contracts]; cbmc --sat-solver cadical + pointer/bounds/overflow checks)" % (prop, tier),
        "trusted_base": propinfo.TRUSTED_BASE + info.get("trusted", []),
        "functions_under_contract": sorted(f for f in funcs if f),
        "proof_units": proof_units,
        "bounded_units": bounded_units,
        "bounded_obligations": n_ob_b, "bounded_discharged": n_ok_b,
        "undecided_units": [p for p in per_unit if p.get("status") == "undecided"],
        "samples": samples[:12] or [{"note": "no postcondition obligation in scope"}],
        "annotate_report": report,
        "not_decided_here": info.get("not_decided", []),
        "known_findings_printed": [k["text"] for (_, _, k) in knowns],
        "explanation": info.get("explanation", ""),
        "static_inventory": static_facts,
        # generic fallback keys (for properties whose deciding units are all bounded)
        "evaluations": len(per_unit), "distinct_nontrivial": n_ob + n_ob_b,
        "rule": "one evaluation = one proof unit (function under contract); distinct_nontrivial = obligations generated by CBMC/DFCC that are attributed to this property",
    }
    ev = {"property_id": prop, "tier": tier, "seed": seed, "level": info.get("level", "proof"), "coverage": cov,
          "assumptions": propinfo.ASSUMPTIONS + info.get("assumptions", []) + scan_assumptions(),
          "wall_s": round(wall, 2), "violations": len(violations)}
    # evidence describes /repo; a development run against another tree (VERIF_REPO, used for seeded changes) must not overwrite it
    evdir = os.environ.get("VERIF_EVIDENCE_DIR") or (os.path.join(VERIF, "evidence") if os.path.realpath(driver.REPO) == "/repo" else "/tmp/vf_evidence_other_tree")
    os.makedirs(evdir, exist_ok=True)
    json.dump(ev, open(os.path.join(evdir, prop + ".json"), "w"), indent=1)
    print("%s %s: units=%d proof-obligations=%d/%d bounded-obligations=%d/%d known=%d violations=%d undecided=%d wall=%.1fs" % (
        prop, tier, len(sel), n_ok, n_ob, n_ok_b, n_ob_b, len(knowns), len(violations), len(undecided), wall))
    return rc

if __name__ == "__main__":
    sys.exit(main())
