#!/bin/bash
# runs every claimed property's quick check on the current /repo tree (sequentially; units inside a check run in parallel) and reports
cd /verif
for p in $(python3 -c "import json;print(' '.join(c['property_id'] for c in json.load(open('MANIFEST.json'))['checks']))"); do
  t0=$(date +%s); out=$(./check $p --tier ${1:-quick} 2>&1); rc=$?; t1=$(date +%s)
  echo "$p rc=$rc $((t1-t0))s $(echo "$out" | tail -1)"
  echo "$out" | grep -E "VIOLATION|UNDECIDED|KNOWN" | head -5
done
