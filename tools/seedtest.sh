#!/bin/bash
# usage: tools/seedtest.sh <worktree> <property> <seed-name> [extra props to check...]
# 1. confirms the seeded change independently (tests pass, demo fails with / passes without), 2. stores it under seeded/<name>/,
# 3. applies it to /repo, runs the checks, reverts /repo.
set -u
WT=$1; PROP=$2; NAME=$3; shift 3; EXTRA="$@"
D=/verif/seeded/$NAME; mkdir -p $D
git -C $WT diff -- cJSON.c cJSON_Utils.c cJSON.h cJSON_Utils.h > $D/patch.diff
cp $WT/seed/demo.c $D/demo.c 2>/dev/null; cp $WT/seed/notes.txt $D/notes.txt 2>/dev/null
S=$(mktemp -d /tmp/seedchk.XXXX)
# with the change
cp $WT/cJSON.c $WT/cJSON.h $WT/cJSON_Utils.c $WT/cJSON_Utils.h $S/
SAN=""; grep -q "fsanitize" $D/notes.txt 2>/dev/null && SAN="-fsanitize=address,undefined -g"; grep -q -- "--wrap=malloc" $D/notes.txt 2>/dev/null && SAN="-Wl,--wrap=malloc,--wrap=realloc,--wrap=free"
LIBSRC="cJSON.c cJSON_Utils.c"; grep -q '#include "cJSON.c"' $D/demo.c && LIBSRC=""   # a demo that #includes the library source is compiled alone
( cd $S && cc $SAN -I$S $D/demo.c $LIBSRC -lm -o demo_mut 2>/dev/null; ./demo_mut >/dev/null 2>&1; echo $? > rc_mut )
# without
git -C $WT show HEAD:cJSON.c > $S/cJSON.c; git -C $WT show HEAD:cJSON_Utils.c > $S/cJSON_Utils.c
( cd $S && cc $SAN -I$S $D/demo.c $LIBSRC -lm -o demo_orig 2>/dev/null; ./demo_orig >/dev/null 2>&1; echo $? > rc_orig )
RCM=$(cat $S/rc_mut); RCO=$(cat $S/rc_orig)
# test suite with the change
( cd $WT && cmake -G Ninja -S . -B _build -DENABLE_CJSON_TEST=On >/dev/null 2>&1 && cmake --build _build >/dev/null 2>&1 && ctest --test-dir _build -j8 2>&1 | grep "tests passed" ) > $S/tests.txt
TESTS=$(cat $S/tests.txt)
rm -rf $S
echo "seed $NAME: demo rc with change=$RCM without=$RCO ; tests: $TESTS"
# run our checks against it
# the seeded change is applied to a scratch worktree of /repo's HEAD (never to /repo itself while other runs read it)
TR=${SEED_REPO:-/tmp/repo_clean}
[ -d $TR ] || git -C /repo worktree add -q $TR HEAD
git -C $TR checkout -q --detach $(git -C /repo rev-parse HEAD) && git -C $TR checkout -- .
git -C $TR apply $D/patch.diff || { echo "patch does not apply"; exit 3; }
RES=""
for P in $PROP $EXTRA; do
  OUT=$(cd /verif && VERIF_REPO=$TR ./check $P --tier quick 2>&1); RC=$?
  echo "--- check $P rc=$RC"; echo "$OUT" | grep -E "VIOLATION|failed obligation|UNDECIDED|KNOWN" | head -8
  RES="$RES $P:rc=$RC"
done
git -C $TR checkout -- .
python3 - "$D" "$PROP" "$NAME" "$RCM" "$RCO" "$TESTS" "$RES" <<'PY'
import json,sys,os
d,prop,name,rcm,rco,tests,res=sys.argv[1:8]
notes=open(os.path.join(d,'notes.txt')).read() if os.path.exists(os.path.join(d,'notes.txt')) else ''
json.dump({"seed":name,"breaks_property":prop,"needs_to_manifest":notes[:1500],
 "confirmed":{"demo_exit_with_change":int(rcm),"demo_exit_without_change":int(rco),"existing_tests_with_change":tests},
 "our_checks":res.strip(),"ran":"tools/seedtest.sh (demo compiled against patched and pristine sources; ctest in the scratch worktree; ./check <prop> --tier quick with VERIF_REPO pointing at a scratch worktree of /repo HEAD that has the patch applied; reverted afterwards)"},
 open(os.path.join(d,'meta.json'),'w'),indent=1)
PY
