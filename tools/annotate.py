#!/usr/bin/env python3
"""Mechanical annotation of a scratch copy of the cJSON sources (DESIGN.md 1.1).

Copies cJSON.c, cJSON_Utils.c, cJSON.h, cJSON_Utils.h from the repository's current working
tree into a scratch directory and applies ONLY these edits, each a must-fire rule
(anything unexpected raises AnnotateError -> driver exit 2 "extraction broke", never a violation):

  R1 loop contracts   : for (file, function, loop ordinal) in specs/loops.tbl insert the
                        __CPROVER_assigns/loop_invariant/decreases clauses between the loop header
                        and its body (do..while: between `while(c)` and `;`).
  R2 ghost decls      : optional declarations inserted as first statement of a function body.
  R3 static hoisting  : every function-local `static` object is moved to file scope and renamed
                        <function>__<name>  (scope only; lifetime and initialiser unchanged).
  R4 variadic calls   : sprintf/sscanf with a literal format become fixed-arity model calls
                        vf_sprintf_<mangled format>(dst, args...) / vf_sscanf_<mangled>(src, args...).
  R5 struct memcpy    : memcpy(d, s, sizeof(cJSON)) becomes vf_memcpy_cjson(d, s, sizeof(cJSON)) (exact 64-byte copy model);
                        memset(p, 0, sizeof(cJSON)) becomes vf_memset_cjson (typed zero assignment, so that symex sees NULL links).
  R6 shared record    : `static error global_error` (the only file-scope object that library calls write after start-up) becomes
                        `static volatile error global_error`; the driver then runs goto-instrument --nondet-volatile, so every read of
                        it inside a function body returns an arbitrary value - the interference model for C20 (another thread may
                        store to the error record at any moment).  Contract clauses are not affected (they are not instructions when
                        the pass runs); a read that is the operand of a `return` is not affected either (cJSON_GetErrorPtr).
Nothing is dropped.
"""
import os, re, sys, shutil

class AnnotateError(Exception):
    pass

FILES = ["cJSON.c", "cJSON_Utils.c", "cJSON.h", "cJSON_Utils.h"]

# ---------------------------------------------------------------- lexer
def lex(src):
    """yield (kind, text, start, end); kinds: id, num, str, chr, punct, ws, comment, pp"""
    i, n = 0, len(src)
    out = []
    bol = True
    while i < n:
        c = src[i]
        if c in " \t\r\n":
            j = i
            while j < n and src[j] in " \t\r\n":
                j += 1
            if "\n" in src[i:j]:
                bol = True
            out.append(("ws", src[i:j], i, j)); i = j; continue
        if src.startswith("/*", i):
            j = src.index("*/", i) + 2
            out.append(("comment", src[i:j], i, j)); i = j; continue
        if src.startswith("//", i):
            j = src.find("\n", i)
            j = n if j < 0 else j
            out.append(("comment", src[i:j], i, j)); i = j; continue
        if c == "#" and bol:
            j = i
            while True:
                k = src.find("\n", j)
                if k < 0:
                    k = n; break
                if src[k-1] == "\\":
                    j = k + 1; continue
                break
            out.append(("pp", src[i:k], i, k)); i = k; continue
        bol = False
        if c == '"' or c == "'":
            j = i + 1
            while src[j] != c:
                if src[j] == "\\":
                    j += 1
                j += 1
            j += 1
            out.append(("str" if c == '"' else "chr", src[i:j], i, j)); i = j; continue
        if c.isalpha() or c == "_":
            j = i
            while j < n and (src[j].isalnum() or src[j] == "_"):
                j += 1
            out.append(("id", src[i:j], i, j)); i = j; continue
        if c.isdigit():
            j = i
            while j < n and (src[j].isalnum() or src[j] in "._"):
                j += 1
            out.append(("num", src[i:j], i, j)); i = j; continue
        out.append(("punct", c, i, i + 1)); i += 1
    return out

def code_tokens(toks):
    return [t for t in toks if t[0] not in ("ws", "comment", "pp")]

# ---------------------------------------------------------------- function finder
def find_functions(src):
    """returns {name: (body_open_index, body_close_index, def_start_index)} for file-scope function
    definitions.  Index = character offsets of '{' and matching '}'."""
    toks = code_tokens(lex(src))
    funcs = {}
    depth = 0
    i = 0
    last_decl_start = 0
    stmt_start = None
    while i < len(toks):
        k, t, s, e = toks[i]
        if depth == 0:
            if stmt_start is None:
                stmt_start = s
            if t == ";":
                stmt_start = None
            elif t == "{":
                # is this a function body?  previous token must be ')' of a parameter list
                j = i - 1
                is_fn = False
                if j >= 0 and toks[j][1] == ")":
                    # find matching '('
                    d = 0
                    while j >= 0:
                        if toks[j][1] == ")": d += 1
                        elif toks[j][1] == "(":
                            d -= 1
                            if d == 0: break
                        j -= 1
                    name_tok = toks[j - 1] if j > 0 else None
                    if name_tok and name_tok[0] == "id":
                        is_fn = True
                        name = name_tok[1]
                # find matching close
                d = 0
                m = i
                while m < len(toks):
                    if toks[m][1] == "{": d += 1
                    elif toks[m][1] == "}":
                        d -= 1
                        if d == 0: break
                    m += 1
                if is_fn:
                    if name in funcs:
                        raise AnnotateError("function %s defined twice" % name)
                    funcs[name] = (toks[i][2], toks[m][2], stmt_start)
                i = m
                stmt_start = None
        i += 1
    return funcs

# ---------------------------------------------------------------- loops
def find_loops(src, body_open, body_close):
    """returns list of insertion offsets (absolute) in textual order of loop keywords:
    for `for(..)`/`while(..)` the offset right after the closing paren of the header;
    for `do {..} while(..);` the offset right after the closing paren of the trailing while."""
    seg = src[body_open:body_close + 1]
    toks = code_tokens(lex(seg))
    loops = []   # (keyword_pos, insertion_pos)
    do_stack = []  # brace depth at which a do-body was opened
    depth = 0
    pending_do_tail = []  # list of keyword_pos for do loops whose body just closed
    i = 0
    def match_paren(i):
        d = 0
        while i < len(toks):
            if toks[i][1] == "(": d += 1
            elif toks[i][1] == ")":
                d -= 1
                if d == 0: return i
            i += 1
        raise AnnotateError("unbalanced parentheses")
    while i < len(toks):
        k, t, s, e = toks[i]
        if t == "{":
            depth += 1
        elif t == "}":
            depth -= 1
            if do_stack and do_stack[-1][0] == depth:
                pending_do_tail.append(do_stack.pop()[1])
        elif k == "id" and t == "do":
            if toks[i + 1][1] != "{":
                raise AnnotateError("do without braces is not supported")
            do_stack.append((depth, s))
        elif k == "id" and t == "for":
            j = match_paren(i + 1)
            loops.append((s, toks[j][3]))
        elif k == "id" and t == "while":
            j = match_paren(i + 1)
            if pending_do_tail:
                kw = pending_do_tail.pop()
                loops.append((kw, toks[j][3]))
            else:
                loops.append((s, toks[j][3]))
            i = j
        i += 1
    if do_stack or pending_do_tail:
        raise AnnotateError("unterminated do-while")
    loops.sort()
    return [body_open + ins for (_, ins) in loops]

# ---------------------------------------------------------------- loops.tbl
def parse_loops_tbl(path):
    """format:
       @ <file> <function> nloops=<n>
       #<ordinal>
       <clauses...>
       ghost: <declaration;>      (optional, R2)
    """
    table = {}
    cur = None
    ordn = None
    if not os.path.exists(path):
        return table
    for raw in open(path):
        line = raw.rstrip("\n")
        if not line.strip() or line.lstrip().startswith("//"):
            continue
        if line.startswith("@"):
            parts = line.split()
            fn = (parts[1], parts[2])
            n = int(parts[3].split("=")[1])
            cur = table.setdefault(fn, {"nloops": n, "loops": {}, "ghost": []})
            ordn = None
        elif line.startswith("#"):
            ordn = int(line[1:].strip())
            cur["loops"][ordn] = []
        elif line.startswith("ghost:"):
            cur["ghost"].append(line[len("ghost:"):].strip())
        else:
            if cur is None or ordn is None:
                raise AnnotateError("loops.tbl: clause outside a loop section: " + line)
            cur["loops"][ordn].append(line.strip())
    return table

# ---------------------------------------------------------------- R4 variadic
def mangle(fmt_literal):
    body = fmt_literal[1:-1]
    return re.sub(r"[^A-Za-z0-9]", "_", body)

def split_args(s):
    args, d, cur, i = [], 0, "", 0
    toks = lex(s)
    for k, t, a, b in toks:
        if k == "punct" and t in "([{": d += 1
        if k == "punct" and t in ")]}": d -= 1
        if k == "punct" and t == "," and d == 0:
            args.append(cur); cur = ""
        else:
            cur += t
    args.append(cur)
    return [a.strip() for a in args]

KNOWN_FORMATS = {
    "sprintf": ['"null"', '"%d"', '"%1.15g"', '"%1.17g"', '"u%04x"', '"%i.%i.%i"',
                '"/%lu%s"', '"%s/"', '"%s/%lu"', '"%lu"'],
    "sscanf": ['"%lg"'],
}

def rewrite_struct_memcpy(src, fname, report):
    """R5: memcpy(dst, src, sizeof(cJSON)) -> vf_memcpy_cjson(dst, src, sizeof(cJSON)): the struct-copy model is exact, the
    general memcpy model is only exact at the ghost indices"""
    toks = code_tokens(lex(src))
    edits = []
    for idx, (k, t, s, e) in enumerate(toks):
        if k == "id" and t == "memcpy" and toks[idx + 1][1] == "(":
            d = 0; j = idx + 1
            while True:
                if toks[j][1] == "(": d += 1
                elif toks[j][1] == ")":
                    d -= 1
                    if d == 0: break
                j += 1
            args = split_args(src[toks[idx + 1][3]:toks[j][2]])
            if len(args) == 3 and args[2].replace(" ", "") == "sizeof(cJSON)":
                edits.append((s, e, "vf_memcpy_cjson"))
                report.append("R5 %s: memcpy(%s) -> vf_memcpy_cjson" % (fname, ", ".join(args)))
        if k == "id" and t == "memset" and toks[idx + 1][1] == "(":
            d = 0; j = idx + 1
            while True:
                if toks[j][1] == "(": d += 1
                elif toks[j][1] == ")":
                    d -= 1
                    if d == 0: break
                j += 1
            args = split_args(src[toks[idx + 1][3]:toks[j][2]])
            if len(args) == 3 and args[2].replace(" ", "") == "sizeof(cJSON)" and args[1].strip() in ("'\\0'", "0"):
                edits.append((s, e, "vf_memset_cjson"))
                report.append("R5 %s: memset(%s) -> vf_memset_cjson" % (fname, ", ".join(args)))
    for s_, e_, new in sorted(edits, reverse=True):
        src = src[:s_] + new + src[e_:]
    return src

def volatile_shared(src, fname, report):
    """R6: the shared error record becomes volatile (interference model, see module docstring)"""
    if fname != "cJSON.c":
        return src
    new, n = re.subn(r"(?m)^static\s+error\s+global_error\b", "static volatile error global_error", src)
    if n != 1:
        raise AnnotateError("%s: R6 expected exactly one definition `static error global_error`, found %d" % (fname, n))
    report.append("R6 %s: static error global_error -> static volatile error global_error" % fname)
    return new

def rewrite_variadic(src, fname, report):
    toks = lex(src)
    edits = []
    ct = code_tokens(toks)
    for idx, (k, t, s, e) in enumerate(ct):
        if k == "id" and t in ("sprintf", "sscanf", "printf", "fprintf", "snprintf", "vsprintf", "vsnprintf", "fscanf", "scanf"):
            if ct[idx + 1][1] != "(":
                continue
            if t not in ("sprintf", "sscanf"):
                raise AnnotateError("%s: variadic call %s has no model" % (fname, t))
            d = 0
            j = idx + 1
            while True:
                if ct[j][1] == "(": d += 1
                elif ct[j][1] == ")":
                    d -= 1
                    if d == 0: break
                j += 1
            inner = src[ct[idx + 1][3]:ct[j][2]]
            args = split_args(inner)
            if len(args) < 2 or not (args[1].startswith('"') and args[1].endswith('"')):
                raise AnnotateError("%s: %s with non-literal format: %s" % (fname, t, inner))
            if args[1] not in KNOWN_FORMATS[t]:
                raise AnnotateError("%s: %s format %s not in the model table" % (fname, t, args[1]))
            new = "vf_%s_%s(%s)" % (t, mangle(args[1]), ", ".join([args[0]] + args[2:]))
            edits.append((s, ct[j][3], new))
            report.append("R4 %s: %s(%s) -> %s" % (fname, t, inner.strip(), new))
    for s, e, new in sorted(edits, reverse=True):
        src = src[:s] + new + src[e:]
    return src

# ---------------------------------------------------------------- R3 static hoisting
def hoist_statics(src, fname, report):
    funcs = find_functions(src)
    edits = []  # (start, end, replacement)
    hoisted = []  # (def_start, text)
    for name, (bo, bc, ds) in funcs.items():
        seg = src[bo:bc + 1]
        toks = code_tokens(lex(seg))
        i = 0
        prev = "{"
        while i < len(toks):
            k, t, s, e = toks[i]
            if k == "id" and t == "static" and prev in ("{", "}", ";"):
                j = i
                d = 0
                while not (toks[j][1] == ";" and d == 0):
                    if toks[j][1] in "([{": d += 1
                    if toks[j][1] in ")]}": d -= 1
                    j += 1
                decl = seg[s:toks[j][3]]
                # declared identifier: last identifier before first of '[', '=', ';' at depth 0
                m = i
                ident = None
                while m <= j:
                    if toks[m][1] in ("[", "=", ";"):
                        break
                    if toks[m][0] == "id":
                        ident = toks[m]
                    m += 1
                if ident is None:
                    raise AnnotateError("%s: cannot parse local static in %s: %s" % (fname, name, decl))
                new_name = "%s__%s" % (name, ident[1])
                new_decl = decl[:ident[2] - s] + new_name + decl[ident[3] - s:]
                hoisted.append((ds, new_decl + " "))
                edits.append((bo + s, bo + toks[j][3], "/* hoisted: %s */" % new_name))
                # rename uses in the rest of the function body
                for (k2, t2, s2, e2) in toks[j + 1:]:
                    if k2 == "id" and t2 == ident[1]:
                        edits.append((bo + s2, bo + e2, new_name))
                report.append("R3 %s: %s::%s -> file-scope %s%s" % (fname, name, ident[1], new_name, " [const]" if re.search(r"\bconst\b", decl) else " [mutable]"))
                i = j
            prev = toks[i][1]
            i += 1
    for ds, text in hoisted:
        edits.append((ds, ds, text))
    for s, e, new in sorted(edits, key=lambda x: (x[0], x[1]), reverse=True):
        src = src[:s] + new + src[e:]
    return src

# ---------------------------------------------------------------- R1/R2
def insert_loop_contracts(src, fname, table, report):
    funcs = find_functions(src)
    edits = []
    for (f, fn), spec in table.items():
        if f != fname:
            continue
        if fn not in funcs:
            raise AnnotateError("%s: function %s (loops.tbl) not found" % (fname, fn))
        bo, bc, ds = funcs[fn]
        ins = find_loops(src, bo, bc)
        if len(ins) != spec["nloops"]:
            raise AnnotateError("%s: function %s has %d loops, loops.tbl expects %d" % (fname, fn, len(ins), spec["nloops"]))
        for ordn, clauses in spec["loops"].items():
            if ordn < 1 or ordn > len(ins):
                raise AnnotateError("%s: %s loop #%d out of range" % (fname, fn, ordn))
            edits.append((ins[ordn - 1], " " + " ".join(clauses) + " "))
            report.append("R1 %s: %s loop #%d: %d clauses" % (fname, fn, ordn, len(clauses)))
        for g in spec["ghost"]:
            edits.append((bo + 1, " " + g + " "))
            report.append("R2 %s: %s ghost: %s" % (fname, fn, g))
    for pos, text in sorted(edits, reverse=True):
        src = src[:pos] + text + src[pos:]
    return src

def annotate(repo, scratch, loops_tbl, apply_loops=True):
    """returns report (list of strings)"""
    report = []
    table = parse_loops_tbl(loops_tbl)
    os.makedirs(scratch, exist_ok=True)
    for f in FILES:
        p = os.path.join(repo, f)
        if not os.path.exists(p):
            raise AnnotateError("missing source file " + p)
        src = open(p).read()
        if f.endswith(".c"):
            # order matters: R1 uses original loop ordinals; hoisting and variadic rewriting do not add loops
            src = insert_loop_contracts(src, f, table, report) if apply_loops else src
            src = hoist_statics(src, f, report)
            src = rewrite_variadic(src, f, report)
            src = rewrite_struct_memcpy(src, f, report)
            src = volatile_shared(src, f, report)
        open(os.path.join(scratch, f), "w").write(src)
    return report

def loop_counts(repo):
    """loop count of every function (for evidence / drift detection)"""
    res = {}
    for f in ("cJSON.c", "cJSON_Utils.c"):
        src = open(os.path.join(repo, f)).read()
        for name, (bo, bc, ds) in find_functions(src).items():
            res[(f, name)] = len(find_loops(src, bo, bc))
    return res

if __name__ == "__main__":
    repo = sys.argv[1] if len(sys.argv) > 1 else "/repo"
    scratch = sys.argv[2] if len(sys.argv) > 2 else "/tmp/vf_scratch"
    here = os.path.dirname(os.path.abspath(__file__))
    try:
        rep = annotate(repo, scratch, os.path.join(here, "..", "specs", "loops.tbl"))
    except AnnotateError as ex:
        print("EXTRACTION-BROKE:", ex); sys.exit(2)
    print("\n".join(rep))
    for k, v in sorted(loop_counts(repo).items()):
        if v: print(k, v)
