"""Native replay of verifier counterexamples (best effort): byte buffers are read off the CBMC trace and fed to a native oracle
program that exercises the REAL code (built from /repo's current tree with ASan/UBSan).  A reproduced failure is appended to the
replay file; otherwise the VIOLATION line keeps the suffix no-failing-input-found."""
import os, re, subprocess, tempfile, shutil, itertools
os.environ.setdefault("ASAN_OPTIONS", "detect_leaks=0")   # leaks are counted by the oracles through the hooks, not by LeakSanitizer
HERE = os.path.dirname(os.path.abspath(__file__)); VERIF = os.path.dirname(HERE)
REPO = os.environ.get("VERIF_REPO", "/repo")

def _byte(val):
    v = str(val).strip()
    if len(v) >= 3 and v[0] == "'" and v[-1] == "'":
        body = v[1:-1]
        esc = {"\\n": 10, "\\r": 13, "\\t": 9, "\\0": 0, "\\\\": 92, "\\'": 39, '\\"': 34, "\\b": 8, "\\f": 12, "\\a": 7, "\\v": 11}
        if body in esc:
            return esc[body]
        if body.startswith("\\x"):
            return int(body[2:], 16) & 0xff
        if body.startswith("\\") and body[1:].isdigit():
            return int(body[1:], 8) & 0xff
        if len(body) == 1:
            return ord(body) & 0xff
        return None
    try:
        return int(v.rstrip("ul")) & 0xff
    except ValueError:
        return None

def candidates_from_trace(trace):
    """byte strings read off a counterexample: (a) elements of arrays / dynamic objects assigned along the path, (b) the sequence of nondet_uchar() results"""
    objs = {}
    seq = []
    for st in trace or []:
        lhs = st.get("lhs", "")
        if lhs == "return_value_nondet_uchar":
            b = _byte(st.get("val"))
            if b is not None:
                seq.append(b)
            continue
        m = re.match(r"([A-Za-z_][A-Za-z_0-9$]*)\[(\d+)l?\]$", lhs)
        if m:
            b = _byte(st.get("val"))
            if b is not None:
                objs.setdefault(m.group(1), {})[int(m.group(2))] = b
    cands = []
    # \uXXXX literals: the symbolic input of a contract unit has no assignment in the trace, but the code units the function decoded do
    fc = [st.get("val") for st in trace or [] if st.get("lhs") == "first_code"]
    sc = [st.get("val") for st in trace or [] if st.get("lhs") == "second_code"]
    def _u(v):
        try:
            return int(str(v).rstrip("ul")) & 0xFFFF
        except ValueError:
            return None
    for v in fc:
        a = _u(v)
        if a is None:
            continue
        cands.append(b"\\u%04x" % a)
        for w in sc:
            b_ = _u(w)
            if b_ is not None:
                cands.append(b"\\u%04x\\u%04x" % (a, b_))
    if seq:
        cands.append(bytes(seq))
    for name, d in objs.items():
        n = max(d) + 1
        if n > 4096:
            continue
        for fill in (0x20, 0x00, 0x31):
            cands.append(bytes(d.get(i, fill) for i in range(n)))
    return cands

def build_oracle(src, work):
    exe = os.path.join(work, "oracle")
    cmd = ["cc", "-fsanitize=address,undefined", "-g", "-I" + REPO, os.path.join(VERIF, "replay", src), os.path.join(REPO, "cJSON.c"), os.path.join(REPO, "cJSON_Utils.c"), "-lm", "-o", exe]
    p = subprocess.run(cmd, capture_output=True, text=True)
    return exe if p.returncode == 0 else None

def parse_family(o, r, path):
    cands = candidates_from_trace(o.get("trace"))
    if not cands:
        return False
    work = tempfile.mkdtemp(prefix="vfr_")
    try:
        exe = build_oracle("parse_oracle.c", work)
        if exe is None:
            return False
        tried = 0
        seen = set()
        for c in cands:
            variants = [c, b'"' + c + b'"', b'[' + c + b']', b'["' + c + b'"]', c + b'\x00', b'"' + c + b'"\x00']
            for v in variants:
                for L in sorted(set([len(v), max(len(v) - 1, 0)] + list(range(0, min(len(v), 24) + 1)))):
                    for rnt in (0, 1):
                        key = (v[:L], rnt)
                        if key in seen or tried > 4000:
                            continue
                        seen.add(key); tried += 1
                        p = subprocess.run([exe, v.hex(), str(L), str(rnt)], capture_output=True, text=True, timeout=20)
                        if p.returncode not in (0, 2):
                            with open(path, "a") as f:
                                f.write("\nNATIVE REPLAY (real code from %s, ASan/UBSan): FAILS\n  input bytes (hex): %s\n  length: %d  require_null_terminated: %d\n  command: replay/parse_oracle %s %d %d\n  output:\n%s%s\n" % (
                                    REPO, v[:L].hex(), L, rnt, v.hex(), L, rnt, p.stdout, p.stderr[-1500:]))
                            return True
        with open(path, "a") as f:
            f.write("\nnative replay: %d inputs derived from the counterexample were run against the real code; none failed the oracle\n" % tried)
        return False
    finally:
        shutil.rmtree(work, ignore_errors=True)

def minify_family(o, r, path):
    cands = candidates_from_trace(o.get("trace"))
    if not cands:
        return False
    work = tempfile.mkdtemp(prefix="vfr_")
    try:
        exe = build_oracle("minify_oracle.c", work)
        if exe is None:
            return False
        tried = 0
        for c in cands:
            c = c.split(b"\x00")[0]
            if not c:
                continue
            tried += 1
            p = subprocess.run([exe, c.hex()], capture_output=True, text=True, timeout=20)
            if p.returncode not in (0, 2):
                with open(path, "a") as f:
                    f.write("\nNATIVE REPLAY (real code from %s, ASan/UBSan): FAILS\n  input bytes (hex): %s\n  command: replay/minify_oracle %s\n  output:\n%s%s\n" % (REPO, c.hex(), c.hex(), p.stdout, p.stderr[-1500:]))
                return True
        with open(path, "a") as f:
            f.write("\nnative replay: %d inputs derived from the counterexample were run against the real code; none failed the oracle\n" % tried)
        return False
    finally:
        shutil.rmtree(work, ignore_errors=True)

def print_family(o, r, path):
    """string bytes read off the counterexample -> the real printers (reference escaping, caller buffers of every length between guard zones)"""
    cands = candidates_from_trace(o.get("trace"))
    work = tempfile.mkdtemp(prefix="vfr_")
    try:
        exe = build_oracle("print_oracle.c", work)
        if exe is None:
            return False
        tried = 0; seen = set()
        for c in cands:
            c = c.split(b"\x00")[0]
            if not c or c in seen or len(c) > 64:
                continue
            seen.add(c); tried += 1
            p = subprocess.run([exe, c.hex()], capture_output=True, text=True, timeout=30)
            if p.returncode not in (0, 2):
                with open(path, "a") as f:
                    f.write("\nNATIVE REPLAY (real code from %s, ASan/UBSan): FAILS\n  string bytes (hex): %s\n  command: replay/print_oracle %s\n  output:\n%s%s\n" % (REPO, c.hex(), c.hex(), p.stdout, p.stderr[-1500:]))
                return True
        with open(path, "a") as f:
            f.write("\nnative replay: %d strings derived from the counterexample were run against the real printers; none failed the oracle\n" % tried)
        return False
    finally:
        shutil.rmtree(work, ignore_errors=True)

def _dbl(v):
    v = str(v).strip().lower()
    if v.endswith("f") and len(v) > 1 and v[-2].isdigit():
        v = v[:-1]
    v = {"+inf": "inf", "-inf": "-inf", "+nan": "nan", "-nan": "nan"}.get(v, v)
    try:
        float(v)
        return v
    except ValueError:
        return None

def compare_family(o, r, path):
    """two doubles read off the counterexample (harness arguments a and b, or valuedouble fields) -> real cJSON_Compare"""
    vals = {"a": [], "b": []}
    other = []
    for st in o.get("trace") or []:
        lhs = st.get("lhs", "")
        d = _dbl(st.get("val"))
        if d is None:
            continue
        if lhs in vals:
            vals[lhs].append(d)
        elif lhs.endswith("valuedouble") or lhs in ("d", "return_value_nondet_double"):
            other.append(d)
    pairs = []
    for a in vals["a"][:2]:
        for b in vals["b"][:2]:
            pairs += [(a, b), (b, a)]
    uniq = list(dict.fromkeys(other))[:6]
    pairs += list(itertools.permutations(uniq, 2))
    pairs = list(dict.fromkeys(pairs))[:60]
    if not pairs:
        return False
    work = tempfile.mkdtemp(prefix="vfr_")
    try:
        exe = build_oracle("compare_oracle.c", work)
        if exe is None:
            return False
        for (a, b) in pairs:
            p = subprocess.run([exe, a, b], capture_output=True, text=True, timeout=20)
            if p.returncode == 1:
                with open(path, "a") as f:
                    f.write("\nNATIVE REPLAY (real code from %s, ASan/UBSan): FAILS\n  numbers: %s %s\n  command: replay/compare_oracle %s %s\n  output:\n%s%s\n" % (REPO, a, b, a, b, p.stdout, p.stderr[-1500:]))
                return True
        with open(path, "a") as f:
            f.write("\nnative replay: %d pairs of numbers derived from the counterexample were run against the real code; none failed the oracle\n" % len(pairs))
        return False
    finally:
        shutil.rmtree(work, ignore_errors=True)

PARSE_UNITS = ["parse_hex4", "utf16_literal_to_utf8", "buffer_skip_whitespace", "skip_utf8_bom", "parse_number", "parse_number_plain", "parse_value",
               "cJSON_ParseWithLengthOpts", "cJSON_ParseWithOpts", "cJSON_Parse", "cJSON_ParseWithLength", "parse_string_b", "parse_array", "parse_object"]
REPLAYERS = {u: parse_family for u in PARSE_UNITS}
REPLAYERS["minify_b"] = minify_family
for _u in ("compare_double", "compare_double_sym", "compare_b_00", "compare_b_11", "compare_b_21", "compare_b_22"):
    REPLAYERS[_u] = compare_family
for _u in ("print_string_ptr_b", "print_b_00", "print_b_10", "print_b_20", "print_b_11"):
    REPLAYERS[_u] = print_family
