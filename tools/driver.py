#!/usr/bin/env python3
"""Proof-unit driver: annotate -> goto-cc -> add-library -> dfcc -> cbmc, result parsing and caching.
See DESIGN.md 1.2.  A unit never reports a violation for a tool problem: timeouts, crashes, parse
errors give status 'undecided'."""
import os, sys, re, json, time, hashlib, subprocess, tempfile, shutil, resource

HERE = os.path.dirname(os.path.abspath(__file__))
VERIF = os.path.dirname(HERE)
REPO = os.environ.get("VERIF_REPO", "/repo")
CACHE = os.path.join(VERIF, ".cache")
sys.path.insert(0, HERE)
import annotate

BASE_DEFS = ["-DENABLE_LOCALES", "-DCJSON_EXPORT_SYMBOLS", "-DCJSON_API_VISIBILITY", "-DVF_CBMC"]
CBMC_CHECKS = ["--bounds-check", "--pointer-check", "--pointer-overflow-check", "--unsigned-overflow-check",
               "--signed-overflow-check", "--div-by-zero-check", "--no-malloc-may-fail", "--no-standard-checks"]
# --no-standard-checks: we enumerate the checks explicitly so that the obligation set does not depend on defaults

def sh(cmd, timeout, mem_gb=16, cwd=None):
    def lim():
        resource.setrlimit(resource.RLIMIT_AS, (mem_gb << 30, mem_gb << 30))
        os.setsid()
    t0 = time.time()
    try:
        p = subprocess.run(cmd, stdout=subprocess.PIPE, stderr=subprocess.PIPE, timeout=timeout, cwd=cwd, preexec_fn=lim)
        return p.returncode, p.stdout.decode("utf-8", "replace"), p.stderr.decode("utf-8", "replace"), time.time() - t0
    except subprocess.TimeoutExpired as ex:
        return -9, (ex.stdout or b"").decode("utf-8", "replace"), "TIMEOUT", time.time() - t0

class Unit:
    def __init__(self, name, tu, harness, enforce=None, replace=(), shape="U", props=(), loops=False,
                 unwind=None, unwindset=(), defs=(), covers=0, timeout=(300, 1800), mem=16, tiers=("quick", "thorough"),
                 bound=None, tdefs=None, funcs=None, expect_loop_obligations=0, rec=False, extra_cbmc=(), note="",
                 safety_props=None, no_contract=False, nondet_static=False, tunwind=None, checks_off=(), bounded_loops=(), object_bits=8, slice_formula=True, ignore_desc=(), sat="cadical"):
        self.name = name; self.tu = tu; self.harness = harness; self.enforce = enforce
        self.replace = list(replace); self.shape = shape; self.props = list(props); self.loops = loops
        self.unwind = unwind; self.unwindset = list(unwindset); self.defs = list(defs); self.covers = covers
        self.timeout = timeout; self.mem = mem; self.tiers = tiers; self.bound = bound
        self.tdefs = tdefs or {}            # per-tier extra defines {"quick": [...], "thorough": [...]}
        self.tunwind = tunwind or {}        # per-tier unwind override
        self.funcs = funcs or ([enforce] if enforce else [])   # functions under contract in this unit
        self.expect_loop_obligations = expect_loop_obligations
        self.rec = rec; self.extra_cbmc = list(extra_cbmc); self.note = note
        self.safety_props = list(safety_props) if safety_props is not None else list(props)
        self.no_contract = no_contract      # plain harness (W/B shapes): no --enforce-contract
        self.nondet_static = nondet_static
        self.checks_off = list(checks_off)      # checks disabled for this unit, with the reason in `note`
        self.bounded_loops = list(bounded_loops)  # S/B units: regexes of unwinding assertions that ARE the stated bound
        self.object_bits = object_bits; self.slice_formula = slice_formula
        self.ignore_desc = list(ignore_desc)    # obligation classes that are not claims here (reason in `note`); listed in the evidence
        self.sat = sat                    # SAT back end: cadical by default; minisat2 where cadical's final (UNSAT) query exhausts memory (DESIGN 6)
        self.entry = "h_" + name

def make_scratch():
    d = tempfile.mkdtemp(prefix="vf_")
    try:
        rep = annotate.annotate(REPO, d, os.path.join(VERIF, "specs", "loops.tbl"))
    except annotate.AnnotateError as ex:
        shutil.rmtree(d, ignore_errors=True)
        raise
    return d, rep

def _norm(text, scratch):
    return text.replace(scratch, "<SCRATCH>")

_MACRO_TAGS = {}
def _macro_tags():
    """union of the /*@..*/ tags inside each multi-clause macro of specs/*.h (a clause that comes from a macro is reported at the
    line where the macro is USED, so its tags are those of the macro body)"""
    if _MACRO_TAGS:
        return _MACRO_TAGS
    d = os.path.join(VERIF, "specs")
    for fn in sorted(os.listdir(d)):
        if not fn.endswith(".h"):
            continue
        lines = open(os.path.join(d, fn)).read().split("\n")
        i = 0
        while i < len(lines):
            m = re.match(r"#define\s+([A-Za-z_][A-Za-z0-9_]*)", lines[i])
            if m:
                body = [lines[i]]
                while lines[i].rstrip().endswith("\\") and i + 1 < len(lines):
                    i += 1
                    body.append(lines[i])
                tags = []
                for b in body:
                    for t in re.findall(r"/\*@([^*]*)\*/", b):
                        for x in t.split():
                            if x not in tags:
                                tags.append(x)
                if tags:
                    _MACRO_TAGS[m.group(1)] = tags
            i += 1
    _MACRO_TAGS.setdefault("", [])
    return _MACRO_TAGS

def tag_of_line(path, line, _cache={}):
    """property tags written as /*@C01 C03*/ on the source line of an ensures clause (or inside the macro used on that line)"""
    if path not in _cache:
        try:
            _cache[path] = open(path).read().split("\n")
        except OSError:
            _cache[path] = []
    lines = _cache[path]
    if 1 <= line <= len(lines):
        m = re.search(r"/\*@([^*]*)\*/", lines[line - 1])
        if m:
            return m.group(1).split()
        # a clause that spans several lines is reported at its FIRST line while the tag sits behind its closing parenthesis:
        # follow the continuation lines until the parentheses opened by __CPROVER_ensures( balance (at most 12 lines)
        m = re.match(r"\s*__CPROVER_(ensures|requires)\s*\(", lines[line - 1])
        if m:
            depth = 0
            for j in range(line - 1, min(line + 11, len(lines))):
                txt = re.sub(r"/\*.*?\*/", "", lines[j])
                depth += txt.count("(") - txt.count(")")
                if j > line - 1:
                    mm = re.search(r"/\*@([^*]*)\*/", lines[j])
                    if mm:
                        return mm.group(1).split()
                if depth <= 0:
                    break
        m = re.match(r"\s*([A-Za-z_][A-Za-z0-9_]*)\b", lines[line - 1])
        if m and m.group(1) in _macro_tags() and not lines[line - 1].lstrip().startswith("#"):
            return list(_macro_tags()[m.group(1)])
    return None

def run_unit(u, scratch, tier="quick", use_cache=True, keep=False):
    """returns dict(status, obligations=[...], wall, reason, cmd)"""
    t0 = time.time()
    work = tempfile.mkdtemp(prefix="vfu_", dir=scratch)
    res = {"unit": u.name, "shape": u.shape, "tier": tier, "status": "undecided", "reason": "", "obligations": [],
           "wall_s": 0.0, "solver_s": 0.0, "backend": "cbmc 6.11.0 / SAT %s (--object-bits %d%s)" % (u.sat, u.object_bits, " --slice-formula" if u.slice_formula else ""), "cached": False, "bound": u.bound,
           "functions": u.funcs, "covers": []}
    defs = BASE_DEFS + ["-DVF_TIER_" + tier.upper()] + (["-DVF_ENF_" + u.enforce] if u.enforce else []) + u.defs + u.tdefs.get(tier, [])
    harness = os.path.join(VERIF, u.harness)
    inc = ["-I", scratch, "-I", os.path.join(VERIF, "specs"), "-I", os.path.join(VERIF, "harness")]
    timeout = u.timeout[0] if tier == "quick" else u.timeout[1]
    unwind = u.tunwind.get(tier, u.unwind)
    # ---- cache key: preprocessed TU + flags
    rc, pre, err, _ = sh(["goto-cc", "-E"] + defs + inc + [harness], 120)
    if rc != 0:
        res["reason"] = "preprocess failed: " + err[-2000:]
        return _finish(res, t0, work, keep)
    flags = json.dumps([u.entry, u.enforce, u.replace, u.loops, unwind, u.unwindset, u.rec, u.extra_cbmc, CBMC_CHECKS, u.checks_off] + ([u.sat] if u.sat != "cadical" else []) + [u.object_bits, u.slice_formula, u.ignore_desc, u.no_contract, u.nondet_static, u.covers])
    pre_n = re.sub(r'^# \d+ "[^"]*".*$', "", _norm(pre, scratch), flags=re.M)
    key = hashlib.sha256((pre_n + flags).encode()).hexdigest()
    cpath = os.path.join(CACHE, key + ".json")
    if use_cache and os.path.exists(cpath) and not os.environ.get("VERIF_NOCACHE"):
        try:
            c = json.load(open(cpath))
            c["cached"] = True; c["tier"] = tier
            # tags live in comments (not part of the cache key): re-read them
            for o in c.get("obligations", []):
                fp = os.path.join(VERIF, o["file"]) if o.get("file", "").startswith(("specs/", "harness/")) else None
                o["tags"] = tag_of_line(fp, o.get("line", 0)) if fp else None
            shutil.rmtree(work, ignore_errors=True)
            return c
        except Exception:
            pass
    # ---- build
    gb0, gb1, gb2 = [os.path.join(work, x) for x in ("u0.gb", "u1.gb", "u2.gb")]
    rc, out, err, _ = sh(["goto-cc", "--function", u.entry] + defs + inc + [harness, "-o", gb0], 300)
    if rc != 0:
        res["reason"] = "goto-cc failed: " + (err + out)[-3000:]
        return _finish(res, t0, work, keep)
    rc, out, err, _ = sh(["goto-instrument", "--no-malloc-may-fail", "--add-library", "--nondet-volatile", gb0, gb1], 300)
    if rc != 0:
        res["reason"] = "add-library failed: " + (err + out)[-3000:]
        return _finish(res, t0, work, keep)
    cur = gb1
    if u.nondet_static:
        nx = os.path.join(work, "u1n.gb")
        rc, out, err, _ = sh(["goto-instrument", "--nondet-static", cur, nx], 300)
        if rc != 0:
            res["reason"] = "nondet-static failed: " + (err + out)[-3000:]
            return _finish(res, t0, work, keep)
        cur = nx
    if not u.no_contract or u.loops or u.replace:
        cmd = ["goto-instrument", "--dfcc", u.entry]
        if u.enforce and not u.no_contract:
            cmd += ["--enforce-contract-rec" if u.rec else "--enforce-contract", u.enforce]
        reps = list(u.replace)
        if u.tu in ("cjson", "both") and u.enforce and not u.no_contract and u.enforce != "cJSON_GetErrorPtr" and not any(r.startswith("cJSON_GetErrorPtr") for r in reps):
            reps.append("cJSON_GetErrorPtr/cJSON_GetErrorPtr_any")   # C20 interference model (specs/contracts_cjson.h)
        for r in reps:
            cmd += ["--replace-call-with-contract", r]
        if u.loops:
            cmd += ["--apply-loop-contracts"]
        cmd += [cur, gb2]
        rc, out, err, _ = sh(cmd, 600, mem_gb=u.mem)
        res["dfcc_cmd"] = " ".join(cmd[:-2])
        if rc != 0:
            res["reason"] = "dfcc failed: " + (err + out)[-3000:]
            return _finish(res, t0, work, keep)
        cur = gb2
    # ---- solve
    cmd = ["cbmc", cur, "--sat-solver", u.sat, "--object-bits", str(u.object_bits)] + (["--slice-formula"] if u.slice_formula else []) + [c for c in CBMC_CHECKS if c not in u.checks_off] + ["--json-ui", "--unwinding-assertions", "--drop-unused-functions"]
    if unwind is not None:
        cmd += ["--unwind", str(unwind)]
    # loops of the contracts library iterate over the assigns/frees targets: give them their own generous bound
    lib = []
    if cur == gb2:
        rc_l, out_l, err_l, _ = sh(["goto-instrument", "--show-loops", cur], 120)
        for lid in sorted(set(re.findall(r"Loop (__CPROVER_contracts_\S+?):", out_l))):
            lib.append(lid + ":80")
    uws = list(u.unwindset)
    if u.enforce and not u.no_contract:
        # dfcc renames the enforced function: its loops are called <f>_wrapped_for_contract_checking.N
        uws = uws + [w.replace(u.enforce + ".", u.enforce + "_wrapped_for_contract_checking.", 1) for w in u.unwindset if w.startswith(u.enforce + ".")]
        uws = [w for w in uws if not (w.startswith(u.enforce + ".") )]
    if uws or lib:
        cmd += ["--unwindset", ",".join(uws + lib)]
    cmd += u.extra_cbmc
    res["checker_cmd"] = " ".join(c if c != cur else "<unit>.gb" for c in cmd)
    if os.environ.get("VERIF_BUILD_ONLY"):     # development aid: stop after instrumentation, leave the binary and the checker command behind
        open(os.path.join(work, "cmd.txt"), "w").write(" ".join(c for c in cmd if c != "--json-ui"))
        res["reason"] = "build only: " + work
        return _finish(res, t0, work, True)
    # main pass in TEXT mode: with --json-ui cbmc builds a trace for every failed assertion (the VF_COVER goals fail by design), which can exhaust memory
    tcmd = [c for c in cmd if c != "--json-ui"]
    rc, out, err, wall = sh(tcmd, timeout, mem_gb=u.mem)
    res["solver_s"] = round(wall, 2)
    if keep:
        open(os.path.join(work, "main.out"), "w").write(out + "\n==== stderr ====\n" + err)
    if rc == -9:
        res["reason"] = "timeout after %ds" % timeout
        return _finish(res, t0, work, keep)
    if "out of memory" in (out + err).lower():
        res["reason"] = "cbmc ran out of memory: " + " | ".join(l for l in (out + err).split("\n") if "memory" in l.lower())[:300]
        return _finish(res, t0, work, keep)
    if "** Results:" not in out:
        res["reason"] = "cbmc gave no result list (rc=%d): %s" % (rc, (err + out)[-1500:])
        return _finish(res, t0, work, keep)
    if "ignoring" in out and "forall" in out:
        res["reason"] = "quantifier ignored by back end"
        return _finish(res, t0, work, keep)
    results = []
    cur_file, cur_fn = "", ""
    for line in out[out.index("** Results:"):].split("\n"):
        m = re.match(r"^(\S.*) function (\S+)$", line)
        if m and not line.startswith("["):
            cur_file, cur_fn = m.group(1), m.group(2)
            continue
        m = re.match(r"^\[(\S+)\] (?:line (\d+) )?(.*): (SUCCESS|FAILURE|UNKNOWN|ERROR)$", line)
        if m:
            f_ = cur_file
            if re.match(r"^\[\S+\] file (\S+) line", line):
                mm = re.match(r"^\[(\S+)\] file (\S+) line (\d+) (.*): (SUCCESS|FAILURE|UNKNOWN|ERROR)$", line)
                results.append({"property": mm.group(1), "description": mm.group(4), "status": mm.group(5), "sourceLocation": {"file": mm.group(2), "line": mm.group(3), "function": ""}})
                continue
            results.append({"property": m.group(1), "description": m.group(3), "status": m.group(4), "sourceLocation": {"file": f_, "line": m.group(2) or 0, "function": cur_fn}})
    obs = []
    for r in results:
        loc = r.get("sourceLocation", {}) or {}
        f = loc.get("file", "")
        line = int(loc.get("line", 0) or 0)
        o = {"name": r.get("property", ""), "desc": r.get("description", ""), "status": r.get("status", ""),
             "file": _norm(f, scratch).replace(VERIF + "/", ""), "line": line, "function": loc.get("function", "")}
        # classes of obligation that are not claims of ours
        d = o["desc"]
        tags = None
        if f and os.path.exists(f):
            tags = tag_of_line(f, line)
        o["tags"] = tags
        if o["status"] == "FAILURE" and "trace" in r:
            o["trace"] = compact_trace(r["trace"], scratch)
        obs.append(o)
    if u.ignore_desc:
        res["ignored_obligations"] = [o["name"] + ": " + o["desc"][:80] for o in obs if any(re.search(p_, o["desc"]) for p_ in u.ignore_desc)]
        obs = [o for o in obs if not any(re.search(p_, o["desc"]) for p_ in u.ignore_desc)]
    res["obligations"] = obs
    res["status"] = "done"
    # counterexample traces: separate runs restricted to one failed obligation each (a full --trace run exhausted memory)
    want = [o for o in obs if o["status"] == "FAILURE" and not o["desc"].startswith("VF_COVER")][:int(os.environ.get("VERIF_TRACES", "3"))]
    for o in want:
        tcmd = [c for c in cmd if c != "--json-ui"] + ["--json-ui", "--trace", "--property", o["name"]]
        rc2, out2, err2, _ = sh(tcmd, min(timeout, 600), mem_gb=u.mem)
        try:
            for x in json.loads(out2):
                if isinstance(x, dict) and "result" in x:
                    for rr in x["result"]:
                        if rr.get("property") == o["name"] and "trace" in rr:
                            o["trace"] = compact_trace(rr["trace"], scratch)
        except Exception:
            o["trace"] = [{"note": "trace run failed or ran out of memory"}]
    # ---- loop contracts must have produced their obligations (a silently dropped contract only shows as a timeout)
    loops_seen = set(o["desc"].split("for loop ")[-1].strip() for o in obs if ".loop_invariant_step." in o["name"])
    res["loop_contracts_checked"] = sorted(loops_seen)
    if len(loops_seen) < u.expect_loop_obligations:
        res["status"] = "undecided"
        res["reason"] = "expected %d loop contracts with loop_invariant_step obligations, saw %d" % (u.expect_loop_obligations, len(loops_seen))
        return _finish(res, t0, work, keep)
    # ---- covers (vacuity): VF_COVER(c) is `assert(!c)` and must FAIL (= c is reachable after the call)
    cov = [o for o in obs if o["desc"].startswith("VF_COVER")]
    res["covers"] = [{"goal": o["desc"], "status": "satisfied" if o["status"] == "FAILURE" else "unreachable"} for o in cov]
    res["obligations"] = [o for o in obs if not o["desc"].startswith("VF_COVER")]
    for o in cov:
        o.pop("trace", None)
    sat = [c for c in res["covers"] if c["status"] == "satisfied"]
    if len(cov) != u.covers or len(sat) != len(cov):
        res["reason"] = "vacuity guard: %d/%d cover goals reachable, %d expected" % (len(sat), len(cov), u.covers)
        # a unit with failed obligations is not vacuous: the failures stand (a changed function may well make a cover goal unreachable);
        # without any failure an unreachable goal means the unit proved nothing about that path -> undecided
        if not [o for o in res["obligations"] if o["status"] == "FAILURE"]:
            res["status"] = "undecided"
    if res["status"] == "done":
        os.makedirs(CACHE, exist_ok=True)
        res["wall_s"] = round(time.time() - t0, 2)
        tmp = cpath + ".%d.tmp" % os.getpid()
        json.dump(res, open(tmp, "w"))
        os.replace(tmp, cpath)
    return _finish(res, t0, work, keep)

def _finish(res, t0, work, keep):
    res["wall_s"] = round(time.time() - t0, 2)
    if keep:
        res["work"] = work
    else:
        shutil.rmtree(work, ignore_errors=True)
    return res

def compact_trace(trace, scratch, limit=400):
    """keep assignments and function calls with source lines; enough for a human and for the replay extractor"""
    out = []
    for st in trace:
        t = st.get("stepType")
        loc = st.get("sourceLocation", {}) or {}
        where = "%s:%s" % (os.path.basename(loc.get("file", "")), loc.get("line", "")) if loc else ""
        if t == "assignment" and not st.get("hidden", False):
            v = st.get("value", {})
            val = v.get("data", v.get("name", ""))
            if "binary" in v and v.get("name") in ("integer", "float", "pointer"):
                pass
            out.append({"lhs": st.get("lhs", ""), "val": val, "at": where, "fn": loc.get("function", "")})
        elif t == "function-call" and not st.get("hidden", False):
            out.append({"call": (st.get("function", {}) or {}).get("displayName", ""), "at": where})
        elif t == "failure":
            out.append({"failure": st.get("property", ""), "reason": st.get("reason", ""), "at": where})
    if len(out) > limit:
        out = out[:limit // 2] + [{"elided": len(out) - limit}] + out[-limit // 2:]
    return out

if __name__ == "__main__":
    import units
    name = sys.argv[1]
    tier = sys.argv[2] if len(sys.argv) > 2 else "quick"
    u = units.UNITS[name]
    scratch, rep = make_scratch()
    try:
        r = run_unit(u, scratch, tier, use_cache=False, keep=bool(os.environ.get("KEEP")))
    finally:
        if not os.environ.get("KEEP"):
            shutil.rmtree(scratch, ignore_errors=True)
    fails = [o for o in r["obligations"] if o["status"] == "FAILURE"]
    unk = [o for o in r["obligations"] if o["status"] not in ("SUCCESS", "FAILURE")]
    if unk: print("  (%d obligations UNKNOWN: they follow a failed one)" % len(unk))
    print("unit %s: %s %s  obligations=%d failed=%d wall=%.1fs solver=%.1fs" % (name, r["status"], r["reason"], len(r["obligations"]), len(fails), r["wall_s"], r["solver_s"]))
    for o in fails[:int(os.environ.get("MAXFAIL", "12"))]:
        print("  FAIL %s [%s:%d] %s tags=%s" % (o["name"], o["file"], o["line"], o["desc"], o["tags"]))
        if os.environ.get("TRACE"):
            for s in o.get("trace", []):
                print("      ", s)
    for c in r.get("covers", []):
        print("  cover %s: %s" % (c["goal"], c["status"]))
    if os.environ.get("KEEP"):
        print("scratch:", scratch, r.get("work"))
