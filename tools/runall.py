#!/usr/bin/env python3
"""dev helper: run units in parallel, one line each.  usage: runall.py [-t tier] [-j N] [unit ...|all|prop:Cxx]"""
import sys, os, shutil, argparse, concurrent.futures as cf
HERE = os.path.dirname(os.path.abspath(__file__)); sys.path.insert(0, HERE)
import driver, units
ap = argparse.ArgumentParser(); ap.add_argument("-t", default="quick"); ap.add_argument("-j", type=int, default=12); ap.add_argument("-c", action="store_true"); ap.add_argument("names", nargs="*")
a = ap.parse_args()
sel = []
for n in a.names or ["all"]:
    if n == "all": sel += [u for u in units.UNITS.values() if a.t in u.tiers]
    elif n.startswith("prop:"): sel += [u for u in units.UNITS.values() if n[5:] in u.props and a.t in u.tiers]
    else: sel.append(units.UNITS[n])
scratch, rep = driver.make_scratch()
try:
    with cf.ThreadPoolExecutor(max_workers=a.j) as ex:
        futs = {ex.submit(driver.run_unit, u, scratch, a.t, a.c): u for u in sel}
        for f in cf.as_completed(futs):
            u = futs[f]; r = f.result()
            fails = [o for o in r["obligations"] if o["status"] == "FAILURE"]
            print("%-34s %-9s ob=%-5d fail=%-3d %6.1fs %s" % (u.name, r["status"], len(r["obligations"]), len(fails), r["wall_s"], r["reason"][:300].replace("\n", " ")), flush=True)
            for o in fails[:4]:
                print("      FAIL %s [%s:%d] %s %s" % (o["name"], o["file"], o["line"], o["desc"][:110], o["tags"]), flush=True)
            for c in r.get("covers", []):
                if c["status"] != "satisfied": print("      UNREACHABLE", c["goal"], flush=True)
finally:
    shutil.rmtree(scratch, ignore_errors=True)
