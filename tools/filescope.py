"""Supporting static fact for C20 (syntactic, not a proof obligation): the objects of static storage duration defined at FILE scope in
the library sources.  Returns [(file, name, 'const'|'mutable', declaration)]."""
import re, os

def _strip(src):
    # one left-to-right pass: comments, string literals and character literals are recognised in the order they start
    tok = re.compile(r"/\*.*?\*/|//[^\n]*|\"(?:\\.|[^\"\\\n])*\"|'(?:\\.|[^'\\\n])*'", re.S)
    def rep(m):
        t = m.group(0)
        if t.startswith("/*"):
            return re.sub(r"[^\n]", " ", t)
        if t.startswith("//"):
            return ""
        return '""' if t.startswith('"') else "'c'"
    src = tok.sub(rep, src)
    src = re.sub(r"^[ \t]*#(?:[^\n\\]|\\\n|\\.)*", "", src, flags=re.M)
    return src

def file_scope_objects(path):
    src = _strip(open(path).read())
    out, depth, cur = [], 0, ""
    for ch in src:
        if ch == "{":
            if depth == 0:
                cur += "{"
            depth += 1
        elif ch == "}":
            depth -= 1
            if depth == 0:
                cur += "}"
                head = cur[:cur.rfind("{")].rstrip()
                if head.endswith(")") and "=" not in head:      # function definition: statement ends here
                    cur = ""
        elif depth == 0:
            if ch == ";":
                stmt = " ".join(cur.split())
                cur = ""
                if not stmt or re.match(r"(typedef|extern)\b", stmt):
                    continue
                decl = stmt.split("=")[0].strip()
                if re.match(r"(struct|union|enum)\b[^{}]*\{\}$", decl):   # type definition without declarator
                    continue
                fp = re.search(r"\(\s*\*\s*(\w+)\s*\)\s*\(", decl)       # function-pointer object
                if "(" in decl and not fp:
                    continue                                           # prototype
                decl_noinit = re.sub(r"\{\}", "", decl)
                name = fp.group(1) if fp else (re.findall(r"(\w+)\s*(?:\[[^\]]*\]\s*)*$", decl_noinit) or ["?"])[-1]
                tail = decl_noinit.rsplit("*", 1)[-1] if "*" in decl_noinit and not fp else decl_noinit
                const = bool(re.search(r"\bconst\b", tail)) and not fp
                out.append((os.path.basename(path), name, "const" if const else "mutable", stmt[:160]))
            else:
                cur += ch
    return out

if __name__ == "__main__":
    import sys
    for p in sys.argv[1:]:
        for r in file_scope_objects(p):
            print(r)
