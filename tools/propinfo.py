"""Per-property metadata for evidence files (what is claimed, what is assumed, what is not decided)."""
TRUSTED_BASE = [
    "CBMC 6.11.0 (goto-cc, goto-instrument --dfcc contract instrumentation, symex, cadical SAT back end)",
    "specs/models.h allocator model: vf_alloc/vf_free/vf_realloc = fresh block of the requested size or NULL, every request may be refused",
    "specs/models.h libc models: strlen/strcmp (loop-contract models, strings live in objects ending with NUL), strncmp (n<=5), memcpy (ranges asserted, destination havocked, pointwise content at ghost index g_k), tolower (ASCII), strtod (C11 7.22.1.3 subject-sequence grammar on [0-9+-eE.] ; VALUE unconstrained, not NaN), sprintf/sscanf by literal format (width bounds), localeconv (decimal point in {'.', ',', 0xD9}, never changed)",
    "tools/annotate.py rules R1-R4: loop contracts injected, local statics hoisted, variadic sprintf/sscanf renamed to fixed-arity models; nothing dropped",
]
ASSUMPTIONS = [
    "machine integers are fixed-width bit-vectors (not mathematical); double is IEEE-754 binary64 modelled bit-precisely by CBMC, round-to-nearest",
    "objects are at most 2^47 bytes (CBMC --object-bits 12)",
    "composition of per-function contracts into history/tree-level statements is an induction written in DESIGN.md, not machine-checked",
]
PROPS = {}
NOT_APPLICABLE = {}
def P(pid, **kw):
    PROPS[pid] = kw

P("C10", level="proof", design_ref="DESIGN.md 3 (C10)",
  text="Contract on cJSON_ParseWithLengthOpts (error position / parse end / termination clauses taken from the property text) enforced with "
       "goto-instrument --dfcc for every buffer, every length <= 2^47, both flags, with and without return_parse_end, both hook configurations and an "
       "allocator that may fail at every request; parse_value and cJSON_Delete replaced by contracts, the two skip helpers inlined under a loop contract. "
       "The forwarding entry points are proved to pass (text, strlen+1 | n, out-parameter, flag) unchanged.",
  note="Trusted: CBMC, the allocator/libc models of specs/models.h, the callee view of parse_value (proved in its own unit). "
       "Not decided: 're-parsing the prefix [value, parse_end) gives an equal tree' (two-run relational statement). "
       "Known deviation left unconstrained: a zero byte followed by further non-whitespace bytes inside the buffer is rejected when termination is required.",
  technique="CBMC code contracts (DFCC) on the real function, loop contract on the whitespace skipper, unbounded",
  not_decided=["prefix re-parse equality (relational over two runs)", "buffers where a NUL is followed by non-whitespace bytes: success is not demanded"],
  explanation="all obligations come from units of shape U (loop-free after contract replacement or closed by loop contracts)")
