/* Predicates shared by the contracts (DESIGN.md 2). Plain C expression macros. */
#ifndef VF_PREDS_H
#define VF_PREDS_H

/* ---- hooks configurations (C08, C14): custom allocator without realloc, or the default libc triple */
#define HOOKS_CUSTOM(h) ((h).allocate == vf_alloc && (h).deallocate == vf_free && (h).reallocate == NULL)
#define HOOKS_LIBC(h)   ((h).allocate == vf_libc_malloc && (h).deallocate == vf_libc_free && (h).reallocate == vf_libc_realloc)
#if defined(VF_ONLY_CUSTOM)
#define HOOKS_OK(h)     HOOKS_CUSTOM(h)
#elif defined(VF_ONLY_LIBC)
#define HOOKS_OK(h)     HOOKS_LIBC(h)
#else
#define HOOKS_OK(h)     (HOOKS_CUSTOM(h) || HOOKS_LIBC(h))
#endif
#define HOOKS_EQ(a, b) ((a).allocate == (b).allocate && (a).deallocate == (b).deallocate && (a).reallocate == (b).reallocate)
/* C14: with custom hooks installed the libc allocator names are never called */
#define C14_POST(h)     (HOOKS_CUSTOM(h) ==> g_libc_calls == __CPROVER_old(g_libc_calls))

/* ---- C strings: object of exactly n bytes whose last byte is NUL (earlier NULs allowed) */
#define STR(s, n) ((n) >= 1 && (n) <= VF_MAXLEN && __CPROVER_is_fresh((s), (n)) && ((const char*)(s))[(n) - 1] == 0)

/* ---- hex digits */
#define HEXV(c) (((c) >= '0' && (c) <= '9') ? (c) - '0' : ((c) >= 'A' && (c) <= 'F') ? (c) - 'A' + 10 : ((c) >= 'a' && (c) <= 'f') ? (c) - 'a' + 10 : -1)
#define IS_HEX(c) (HEXV(c) >= 0)
#define HEX4_OK(p) (IS_HEX((p)[0]) && IS_HEX((p)[1]) && IS_HEX((p)[2]) && IS_HEX((p)[3]))
#define HEX4_VAL(p) ((unsigned)((HEXV((p)[0]) << 12) | (HEXV((p)[1]) << 8) | (HEXV((p)[2]) << 4) | HEXV((p)[3])))

/* ---- parse buffer (derived from the code): content readable for length bytes, offset <= length */
#define PB_INV(b) ((b)->length >= 1 && (b)->length <= VF_MAXLEN && (b)->offset <= (b)->length && (b)->depth <= CJSON_NESTING_LIMIT && HOOKS_OK((b)->hooks))
#define PB_FRESH(b) (__CPROVER_is_fresh((b), sizeof(parse_buffer)) && __CPROVER_is_fresh((b)->content, (b)->length) && PB_INV(b))
#define PB_SAME(b) ((b)->content == __CPROVER_old((b)->content) && (b)->length == __CPROVER_old((b)->length) && (b)->offset <= (b)->length)

/* ---- bytes that parse_number copies into its candidate token */
#define NUM_CHAR(c) (((c) >= '0' && (c) <= '9') || (c) == '+' || (c) == '-' || (c) == 'e' || (c) == 'E' || (c) == '.')

#endif
