/* Prologue of every proof unit on cJSON.c: models, then the annotated scratch copy of the real
 * translation unit (found through -I<scratch>), then the contracts as re-declarations. */
#ifndef VF_CJSON_TU_H
#define VF_CJSON_TU_H
#include "models.h"
#include "preds.h"
#define malloc vf_libc_malloc
#define free vf_libc_free
#define realloc vf_libc_realloc
#include "cJSON.c"
#undef malloc
#undef free
#undef realloc
/* typed model of memset(node, 0, sizeof(cJSON)) (annotate rule R5) */
void *vf_memset_cjson(void *p, int c, size_t n)
{
    cJSON *node = (cJSON*)p;
    __CPROVER_assert(c == 0 && n == sizeof(cJSON), "memset model: zeroing one cJSON node");
    __CPROVER_assert(__CPROVER_w_ok(p, sizeof(cJSON)), "memset: node writable");
    node->next = NULL; node->prev = NULL; node->child = NULL; node->type = 0; node->valuestring = NULL; node->valueint = 0; node->valuedouble = 0.0; node->string = NULL;
    return p;
}
#include "contracts_cjson.h"
#endif
