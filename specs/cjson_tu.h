/* Prologue of every proof unit on cJSON.c: models, then the annotated scratch copy of the real
 * translation unit (found through -I<scratch>), then the contracts as re-declarations. */
#ifndef VF_CJSON_TU_H
#define VF_CJSON_TU_H
#include "models.h"
#include "preds.h"
#define malloc vf_libc_malloc
#define free vf_libc_free
#define realloc vf_libc_realloc
#include "cJSON.c"
#undef malloc
#undef free
#undef realloc
#include "contracts_cjson.h"
#endif
