/* cJSON_IsArray: one contract text, proved against the real body in the cJSON.c translation unit (unit cJSON_IsArray) and used in
 * place of the (bodiless there) function in the cJSON_Utils.c translation unit. */
#ifndef VF_C_ISARRAY_H
#define VF_C_ISARRAY_H
CJSON_PUBLIC(cJSON_bool) cJSON_IsArray(const cJSON * const item)
#ifdef VF_ENF_cJSON_IsArray
__CPROVER_requires(item == NULL || __CPROVER_is_fresh(item, sizeof(cJSON)))
#else
__CPROVER_requires(item == NULL || __CPROVER_r_ok(item, sizeof(cJSON)))
#endif
__CPROVER_ensures(__CPROVER_return_value == ((item != NULL && (item->type & 0xFF) == cJSON_Array) ? 1 : 0)) /*@C06 C16*/
__CPROVER_assigns();
#endif
