/* Type predicates and value getters of cJSON.c (included only by their own units, after cjson_tu.h).
 * One contract text per predicate: enforced against the real body (-DVF_PRED_ENF: the node is a fresh object or NULL) and used as the
 * callee contract of cJSON_IsString / cJSON_IsNumber inside the getter units (the node only has to be readable). */
#ifndef VF_C_PREDS_H
#define VF_C_PREDS_H
#ifdef VF_PRED_ENF
#define PRED_PTR_OK(item) ((item) == NULL || __CPROVER_is_fresh((item), sizeof(cJSON)))
#else
#define PRED_PTR_OK(item) ((item) == NULL || __CPROVER_r_ok((item), sizeof(cJSON)))
#endif
#define PRED_CONTRACT(fn, cond) \
CJSON_PUBLIC(cJSON_bool) fn(const cJSON * const item) \
__CPROVER_requires(PRED_PTR_OK(item)) \
__CPROVER_ensures(__CPROVER_return_value == ((item != NULL && (cond)) ? 1 : 0)) /*@C06 C12*/ \
__CPROVER_assigns();
PRED_CONTRACT(cJSON_IsInvalid, (item->type & 0xFF) == cJSON_Invalid)
PRED_CONTRACT(cJSON_IsFalse,   (item->type & 0xFF) == cJSON_False)
PRED_CONTRACT(cJSON_IsTrue,    (item->type & 0xFF) == cJSON_True)
/* IsBool tests the two bits, not the byte: stated for well-formed type words (exactly one type bit, or none = Invalid) */
#define TYPE_WF(t) (((t) & 0xFF) == 0 || (((t) & 0xFF) & (((t) & 0xFF) - 1)) == 0)
CJSON_PUBLIC(cJSON_bool) cJSON_IsBool(const cJSON * const item)
__CPROVER_requires(PRED_PTR_OK(item) && (item == NULL || TYPE_WF(item->type)))
__CPROVER_ensures(__CPROVER_return_value == ((item != NULL && ((item->type & 0xFF) == cJSON_True || (item->type & 0xFF) == cJSON_False)) ? 1 : 0)) /*@C06 C12*/
__CPROVER_assigns();
PRED_CONTRACT(cJSON_IsNull,    (item->type & 0xFF) == cJSON_NULL)
PRED_CONTRACT(cJSON_IsNumber,  (item->type & 0xFF) == cJSON_Number)
PRED_CONTRACT(cJSON_IsString,  (item->type & 0xFF) == cJSON_String)
PRED_CONTRACT(cJSON_IsObject,  (item->type & 0xFF) == cJSON_Object)
PRED_CONTRACT(cJSON_IsRaw,     (item->type & 0xFF) == cJSON_Raw)

CJSON_PUBLIC(char *) cJSON_GetStringValue(const cJSON * const item)
__CPROVER_requires(item == NULL || __CPROVER_is_fresh(item, sizeof(cJSON)))
__CPROVER_ensures((item != NULL && (item->type & 0xFF) == cJSON_String) ? __CPROVER_return_value == item->valuestring : __CPROVER_return_value == NULL) /*@C06*/
__CPROVER_assigns();
CJSON_PUBLIC(double) cJSON_GetNumberValue(const cJSON * const item)
__CPROVER_requires(item == NULL || __CPROVER_is_fresh(item, sizeof(cJSON)))
__CPROVER_ensures((item != NULL && (item->type & 0xFF) == cJSON_Number)
    ? (__CPROVER_return_value == item->valuedouble || (__CPROVER_isnand(__CPROVER_return_value) && __CPROVER_isnand(item->valuedouble)))
    : __CPROVER_isnand(__CPROVER_return_value)) /*@C06*/
__CPROVER_assigns();

/* print_string: forwards the node's value string and the buffer to print_string_ptr and returns its answer */
struct vf_ps_log { const void *s; const void *p; cJSON_bool ret; size_t calls; } g_ps;
static cJSON_bool print_string_ptr(const unsigned char * const input, printbuffer * const output_buffer)
__CPROVER_requires(1)
__CPROVER_ensures(g_ps.s == input && g_ps.p == output_buffer && g_ps.ret == __CPROVER_return_value && g_ps.calls == __CPROVER_old(g_ps.calls) + 1)
__CPROVER_assigns(g_ps);
static cJSON_bool print_string(const cJSON * const item, printbuffer * const p)
__CPROVER_requires(__CPROVER_is_fresh(item, sizeof(cJSON)))
__CPROVER_ensures(g_ps.calls == __CPROVER_old(g_ps.calls) + 1 && g_ps.s == item->valuestring && g_ps.p == p && __CPROVER_return_value == g_ps.ret) /*@C05 C04*/
__CPROVER_assigns(g_ps);
#ifdef VF_PUBVIEW_GetObjectItem
/* cJSON_HasObjectItem: one case-insensitive lookup (public view, specs/c_tree.h) with the caller's arguments; 1 exactly when it finds a member */
CJSON_PUBLIC(cJSON_bool) cJSON_HasObjectItem(const cJSON *object, const char *string)
__CPROVER_requires(1)
__CPROVER_ensures(g_fwp.pub_calls == __CPROVER_old(g_fwp.pub_calls) + 1 && g_fwp.pub_a == (const void*)object && g_fwp.pub_b == (const void*)string && __CPROVER_return_value == (g_fwp.pub_ret != NULL ? 1 : 0)) /*@C06*/
__CPROVER_assigns(g_fwp);
#endif
#endif
