/* ================================================================== composite writers: print_array / print_object (skeleton units, children <= 3 / members <= 2)
 * Every callee (ensure, print_value, print_string_ptr, update_offset) is replaced by a callee view, so element values are arbitrary
 * (any type, any size, any depth); only the element loop is unwound, and the precondition fixes how many elements there are at most.
 * Views log every call: g_el[] the reservations (window, size, offset at the call, verdict), g_wl[] the delegated writers
 * (item or key, offsets, depth, verdict, the offset update_offset left).  The contracts then state, over these logs, what text is laid
 * down where: brackets, separators, tabs and terminators live in reservation windows, the windows and the delegated texts follow each
 * other without gap or overlap (offset chain), the depth is balanced, and any failing callee fails the writer at once.
 * ensure's own unit proves that a window IS buffer+offset with needed+1 bytes available and that what was printed before is kept. */
#ifdef VF_PRINT_CONT
#define PCMAX 12
struct vf_enslog { unsigned char *win; size_t needed; size_t off; _Bool ok; };
struct vf_wrlog { const void *item; size_t off_in; size_t off_out; size_t depth_in; cJSON_bool ok; int kind; size_t el_n; size_t uo_out; };
struct vf_enslog g_el[PCMAX]; size_t g_el_n;
struct vf_wrlog g_wl[PCMAX]; size_t g_wl_n;
#define GHOST_PC __CPROVER_object_whole(g_el), g_el_n, __CPROVER_object_whole(g_wl), g_wl_n, g_nul_at

/* The logs are written by logging functions called from the views' ensures clauses (evaluated when the view replaces a call): the
 * call counters then stay concrete during symbolic execution, which keeps the log arrays field-sensitive (a counter assigned through
 * an assumed equality would make every log access a symbolic index over all entries). */
static _Bool vf_pc_log_ens(const printbuffer *p, size_t needed, const unsigned char *ret)
{ g_el[g_el_n].needed = needed; g_el[g_el_n].off = p->offset; g_el[g_el_n].ok = (ret != NULL); g_el_n++; return 1; }
static _Bool vf_pc_log_wr(const void *item, size_t off_in, size_t depth_in, const printbuffer *p, cJSON_bool ret, int kind)
{ g_wl[g_wl_n].item = item; g_wl[g_wl_n].off_in = off_in; g_wl[g_wl_n].off_out = p->offset; g_wl[g_wl_n].depth_in = depth_in; g_wl[g_wl_n].ok = ret; g_wl[g_wl_n].kind = kind; g_wl[g_wl_n].el_n = g_el_n; g_wl_n++; return 1; }
static _Bool vf_pc_log_uo(const printbuffer *p)
{ g_wl[g_wl_n - 1].uo_out = p->offset; return 1; }

static unsigned char* ensure_pc(printbuffer * const p, size_t needed)
__CPROVER_requires(__CPROVER_is_fresh(p, sizeof(printbuffer)) && PR_SHAPE(p) && needed <= VF_MAXLEN && g_el_n < PCMAX)
__CPROVER_ensures(RET == NULL || (__CPROVER_is_fresh(g_el[g_el_n].win, needed + 1) && __CPROVER_pointer_in_range_dfcc(g_el[g_el_n].win, RET, g_el[g_el_n].win + needed) && RET == g_el[g_el_n].win))
__CPROVER_ensures(RET != NULL ==> (p->length <= INT_MAX && p->offset + needed + 1 <= p->length))
__CPROVER_ensures(TR(p))
__CPROVER_ensures(vf_pc_log_ens(p, needed, RET))
__CPROVER_assigns(p->buffer, p->length, GHOST_ALLOC);

/* a delegated writer (print_value on a child, print_string_ptr on a key): on success it leaves a live buffer with a NUL-terminated token at
 * or after the offset it was given, the depth as it found it; whatever happens the tracked block follows the buffer */
#define WRITER_PC(name, argtype, kindv) \
static cJSON_bool name(argtype item, printbuffer * const output_buffer) \
__CPROVER_requires(__CPROVER_is_fresh(output_buffer, sizeof(printbuffer)) && PR_SHAPE(output_buffer) && g_wl_n < PCMAX) \
__CPROVER_ensures(RET == 0 || RET == 1) \
__CPROVER_ensures(RET ==> (__CPROVER_is_fresh(output_buffer->buffer, output_buffer->length) && output_buffer->length <= INT_MAX && output_buffer->offset < output_buffer->length && \
    output_buffer->offset >= __CPROVER_old(output_buffer->offset) && g_nul_at < output_buffer->length - output_buffer->offset && output_buffer->buffer[output_buffer->offset + g_nul_at] == 0 && \
    output_buffer->depth == __CPROVER_old(output_buffer->depth))) \
__CPROVER_ensures(TR(output_buffer)) \
__CPROVER_ensures(vf_pc_log_wr((const void*)item, __CPROVER_old(output_buffer->offset), __CPROVER_old(output_buffer->depth), output_buffer, RET, (kindv))) \
__CPROVER_assigns(output_buffer->buffer, output_buffer->length, output_buffer->offset, GHOST_ALLOC, g_nul_at);
/* The depth is not in the view's frame: a successful writer leaves it as it found it (print_value's contract), so on the success path this is exact
 * and the field stays a constant during symex (the tab loops of print_object then have concrete bounds).  A FAILING composite writer may leave the
 * depth incremented; print_array / print_object return at once in that case (clause ALL_OK_OR_FAIL: a failed callee is the last call) and promise
 * nothing about the depth of a failed print, so the under-approximated frame on that path is never read. */
WRITER_PC(print_value_pc, const cJSON * const, D_VALUE)
WRITER_PC(print_string_ptr_pc, const unsigned char * const, D_STRING)

static void update_offset_pc(printbuffer * const buffer)
__CPROVER_requires(__CPROVER_is_fresh(buffer, sizeof(printbuffer)) && buffer->buffer != NULL && buffer->offset < buffer->length && g_nul_at < buffer->length - buffer->offset &&
    __CPROVER_r_ok(buffer->buffer, buffer->length) && buffer->buffer[buffer->offset + g_nul_at] == 0 && g_wl_n >= 1 && g_wl_n <= PCMAX)
__CPROVER_ensures(buffer->offset >= __CPROVER_old(buffer->offset) && buffer->offset - __CPROVER_old(buffer->offset) <= g_nul_at && buffer->buffer[buffer->offset] == 0)
__CPROVER_ensures(vf_pc_log_uo(buffer))
__CPROVER_assigns(buffer->offset);

/* the chain of at most three children handed to a composite writer */
#define CH0 (item->child)
#define CH1 (item->child->next)
#define CH2 (item->child->next->next)
#ifndef PA_K
#define PA_K 3
#endif
#if PA_K >= 3
#define PC_N (CH0 == NULL ? 0 : CH1 == NULL ? 1 : CH2 == NULL ? 2 : 3)
#else
#define PC_N (CH0 == NULL ? 0 : CH1 == NULL ? 1 : 2)
#endif
#define NODE_IN(n, rest) ((n) == NULL || (__CPROVER_is_fresh((n), sizeof(cJSON)) && (rest)))
#define OB output_buffer
#define OLD_OFF __CPROVER_old(output_buffer->offset)
#define OLD_DEPTH __CPROVER_old(output_buffer->depth)
#define ALL_OK_OR_FAIL \
__CPROVER_ensures((RET && g_k < g_el_n) ==> g_el[g_k].ok) /*@C05 C08*/ \
__CPROVER_ensures((RET && g_k < g_wl_n) ==> g_wl[g_k].ok) /*@C05 C08*/ \
__CPROVER_ensures((OB != NULL && !RET) ==> (g_el_n >= 1 && g_el_n <= PCMAX && g_wl_n <= PCMAX && (!g_el[g_el_n - 1].ok || (g_wl_n >= 1 && !g_wl[g_wl_n - 1].ok)))) /*@C05 C08*/

/* ------------------------------------------------------------------ print_array */
#ifdef VF_ENF_print_array
#define SEPLEN ((size_t)(OB->format ? 2 : 1))
/* separator j (between child j-1 and child j): reserved where the previous child's text ends, ',' then ' ' when formatting, terminated; child j starts right behind it */
#define PA_SEP(j) (g_el[j].off == g_wl[(j) - 1].uo_out && g_el[j].needed >= SEPLEN + 1 && g_el[j].needed <= SEPLEN + 5 && \
    (!g_el[j].ok || (g_el[j].win[0] == ',' && (OB->format ? (g_el[j].win[1] == ' ' && g_el[j].win[2] == 0) : g_el[j].win[1] == 0))))
#define PA_CHILD(j, node) (g_wl[j].item == (const void*)(node) && g_wl[j].kind == D_VALUE && g_wl[j].depth_in == OLD_DEPTH + 1 && g_wl[j].el_n == (size_t)(j) + 1 && \
    g_wl[j].off_in == ((j) == 0 ? g_el[0].off + 1 : g_el[j].off + SEPLEN))
#define PA_CLOSE (PC_N <= 1 ? 1 : PC_N)
static cJSON_bool print_array(const cJSON * const item, printbuffer * const output_buffer)
#if PA_K >= 3
__CPROVER_requires(__CPROVER_is_fresh(item, sizeof(cJSON)) && NODE_IN(CH0, NODE_IN(CH1, NODE_IN(CH2, CH2->next == NULL))))
#else
__CPROVER_requires(__CPROVER_is_fresh(item, sizeof(cJSON)) && NODE_IN(CH0, NODE_IN(CH1, CH1->next == NULL)))
#endif
__CPROVER_requires(OB == NULL || (__CPROVER_is_fresh(OB, sizeof(printbuffer)) && PR_SHAPE(OB) && OB->depth < VF_MAXLEN))
__CPROVER_requires(g_el_n == 0 && g_wl_n == 0)
__CPROVER_ensures(OB == NULL ==> (!RET && g_el_n == 0 && g_wl_n == 0)) /*@C05*/
/* opening bracket: one byte reserved at the offset the writer was given */
__CPROVER_ensures(OB != NULL ==> (g_el_n >= 1 && g_el[0].off == OLD_OFF && g_el[0].needed >= 1 && g_el[0].needed <= 5 && (!g_el[0].ok || g_el[0].win[0] == '['))) /*@C05 C04 C09*/
/* children are printed in order, one level deeper, each starting right behind the bracket or the separator before it */
__CPROVER_ensures(g_wl_n <= (size_t)PC_N && (g_wl_n < 1 || PA_CHILD(0, CH0)) && (g_wl_n < 2 || PA_CHILD(1, CH1)) && (g_wl_n < 3 || PA_CHILD(2, CH2))) /*@C05 C04*/
__CPROVER_ensures((PC_N >= 2 && g_el_n >= 2 && g_wl_n >= 1 && g_wl[0].ok) ==> PA_SEP(1)) /*@C05 C04 C09*/
__CPROVER_ensures((PC_N >= 3 && g_el_n >= 3 && g_wl_n >= 2 && g_wl[1].ok) ==> PA_SEP(2)) /*@C05 C04 C09*/
/* success: every child was printed, the closing bracket and the terminator sit where the last child's text ends (or right behind '[' for an
 * empty array), the offset points at the bracket (the caller's update_offset moves on), the depth is what it was */
__CPROVER_ensures(RET ==> (g_wl_n == (size_t)PC_N && g_el_n == (size_t)PA_CLOSE + 1 && g_el[PA_CLOSE].needed >= 2 && g_el[PA_CLOSE].needed <= 6 && g_el[PA_CLOSE].win[0] == ']' && g_el[PA_CLOSE].win[1] == 0 && \
    g_el[PA_CLOSE].off == (PC_N == 0 ? g_el[0].off + 1 : g_wl[PC_N - 1].uo_out) && OB->offset == g_el[PA_CLOSE].off && OB->depth == OLD_DEPTH)) /*@C05 C04 C09*/
__CPROVER_ensures(RET ==> (OB->offset >= OLD_OFF && OB->length <= INT_MAX && OB->offset + 3 <= OB->length)) /*@C09*/
ALL_OK_OR_FAIL
__CPROVER_ensures(OB == NULL || TR(OB)) /*@C08*/
__CPROVER_assigns(GHOST_PC, GHOST_ALLOC; OB != NULL: OB->buffer, OB->length, OB->offset, OB->depth);
#endif
/* ------------------------------------------------------------------ print_object (members <= 2; depth <= 2 so that the tab loops unwind completely) */
#ifdef VF_ENF_print_object
#ifndef PO_DMAX
#define PO_DMAX 2
#endif
#ifndef PO_K
#define PO_K 2
#endif
#ifdef PO_DEPTH     /* one unit per nesting depth: the tab reservations then have concrete sizes (a byte-writing loop into a block of symbolic size does not scale, DESIGN 6).
 * The two fields are STORED by a function called from the requires clause (an assumed equality would leave them symbolic during symex). */
static _Bool vf_po_fix(printbuffer *ob) { ob->depth = PO_DEPTH; ob->format = PO_FMT; return 1; }
#define PO_DEPTH_PRE (vf_po_fix(OB) && OB->depth == PO_DEPTH)
#else
#define PO_DEPTH_PRE (OB->depth <= PO_DMAX)
#endif
#ifdef PO_FMT
#define PO_F (PO_FMT)       /* one unit per formatting mode: the reservation indices are then constants */
#define PO_FMT_PRE (OB->format == PO_FMT)
#else
#define PO_F (OB->format != 0)
#define PO_FMT_PRE 1
#endif
#define PO_OLEN ((size_t)(PO_F ? 2 : 1))
#define PO_CL ((size_t)(PO_F ? 2 : 1))
#ifdef PO_DEPTH
#define PO_OD ((size_t)PO_DEPTH)   /* the unit fixes the depth: a constant, so that window indices below are constants */
#else
#define PO_OD OLD_DEPTH
#endif
#define PO_D1 (PO_OD + 1)
/* window byte i (a literal) is a tab if i < n: written with constant indices only (a symbolic index into every candidate window costs millions of variables) */
#define TABS_UPTO(w, n) (((n) < 1 || (w)[0] == '\t') && ((n) < 2 || (w)[1] == '\t') && ((n) < 3 || (w)[2] == '\t') && (n) <= 3)
#define PO_STRIDE (PO_F ? 3 : 2)
#define PO_TB(j) (1 + (j) * PO_STRIDE)
#define PO_CI(j) (PO_TB(j) + (PO_F ? 1 : 0))
#define PO_SI(j) (PO_CI(j) + 1)
#if PO_K >= 2
#define PO_N (CH0 == NULL ? 0 : CH1 == NULL ? 1 : 2)
#else
#define PO_N (CH0 == NULL ? 0 : 1)
#endif
#define PO_NODE(j) ((j) == 0 ? CH0 : CH1)   /* j is a literal */
#define PO_HASNEXT(j) (PO_NODE(j)->next != NULL)
#define PO_SEPL(j) ((size_t)(PO_F ? 1 : 0) + (size_t)(PO_HASNEXT(j) ? 1 : 0))
#define PO_AFTER(j) (g_el[PO_SI(j)].off + PO_SEPL(j))      /* where member j's text (with its separator) ends */
#define PO_MSTART0 (g_el[0].off + PO_OLEN)
#define PO_MSTART1 PO_AFTER(0)
#if PO_K >= 2
#define PO_END (PO_N == 0 ? PO_MSTART0 : PO_N == 1 ? PO_AFTER(0) : PO_AFTER(1))
#else
#define PO_END (PO_N == 0 ? PO_MSTART0 : PO_AFTER(0))
#endif
#define PO_CLOSE (1 + PO_N * PO_STRIDE)
#define EL(i) g_el[i]
/* indentation: depth tabs reserved and written where the member starts */
#define PO_TABS(j, start) (EL(PO_TB(j)).off == (start) && EL(PO_TB(j)).needed >= PO_D1 && EL(PO_TB(j)).needed <= PO_D1 + 4 && (!EL(PO_TB(j)).ok || TABS_UPTO(EL(PO_TB(j)).win, PO_D1)))
/* the key is printed as a string right behind the indentation (or where the member starts) */
#define PO_KEY(j, start) (g_wl[2*(j)].item == (const void*)PO_NODE(j)->string && g_wl[2*(j)].kind == D_STRING && g_wl[2*(j)].off_in == (PO_F ? EL(PO_TB(j)).off + PO_D1 : (start)))
/* ':' (and a tab when formatting) where the key's text ends */
#define PO_COLON(j) (EL(PO_CI(j)).off == g_wl[2*(j)].uo_out && EL(PO_CI(j)).needed >= PO_CL && EL(PO_CI(j)).needed <= PO_CL + 4 && \
    (!EL(PO_CI(j)).ok || (EL(PO_CI(j)).win[0] == ':' && (!PO_F || EL(PO_CI(j)).win[1] == '\t'))))
/* the value of the same member right behind it, one level deeper */
#define PO_VAL(j) (g_wl[2*(j)+1].item == (const void*)PO_NODE(j) && g_wl[2*(j)+1].kind == D_VALUE && g_wl[2*(j)+1].off_in == EL(PO_CI(j)).off + PO_CL && g_wl[2*(j)+1].depth_in == PO_D1)
/* ',' exactly when another member follows, a newline when formatting, then the terminator, where the value's text ends */
#define PO_SEP(j) (EL(PO_SI(j)).off == g_wl[2*(j)+1].uo_out && EL(PO_SI(j)).needed >= PO_SEPL(j) + 1 && EL(PO_SI(j)).needed <= PO_SEPL(j) + 5 && \
    (!EL(PO_SI(j)).ok || ((!PO_HASNEXT(j) || EL(PO_SI(j)).win[0] == ',') && (!PO_F || (PO_HASNEXT(j) ? EL(PO_SI(j)).win[1] == '\n' : EL(PO_SI(j)).win[0] == '\n')) && \
    (PO_SEPL(j) == 0 ? EL(PO_SI(j)).win[0] == 0 : PO_SEPL(j) == 1 ? EL(PO_SI(j)).win[1] == 0 : EL(PO_SI(j)).win[2] == 0))))
#define PO_MEMBER(j, start) \
__CPROVER_ensures((OB != NULL && PO_N > (j) && PO_F && g_el_n > (size_t)PO_TB(j)) ==> PO_TABS(j, start)) /*@C05 C04 C09*/ \
__CPROVER_ensures((OB != NULL && PO_N > (j) && g_wl_n > (size_t)(2*(j))) ==> PO_KEY(j, start)) /*@C05 C04*/ \
__CPROVER_ensures((OB != NULL && PO_N > (j) && g_el_n > (size_t)PO_CI(j)) ==> PO_COLON(j)) /*@C05 C04 C09*/ \
__CPROVER_ensures((OB != NULL && PO_N > (j) && g_wl_n > (size_t)(2*(j)+1)) ==> PO_VAL(j)) /*@C05 C04*/ \
__CPROVER_ensures((OB != NULL && PO_N > (j) && g_el_n > (size_t)PO_SI(j)) ==> PO_SEP(j)) /*@C05 C04 C09*/
static cJSON_bool print_object(const cJSON * const item, printbuffer * const output_buffer)
#if PO_K >= 2
__CPROVER_requires(__CPROVER_is_fresh(item, sizeof(cJSON)) && NODE_IN(CH0, NODE_IN(CH1, CH1->next == NULL)))
#else
__CPROVER_requires(__CPROVER_is_fresh(item, sizeof(cJSON)) && NODE_IN(CH0, CH0->next == NULL))
#endif
__CPROVER_requires(OB == NULL || (__CPROVER_is_fresh(OB, sizeof(printbuffer)) && PR_SHAPE(OB) && PO_DEPTH_PRE && PO_FMT_PRE))
__CPROVER_requires(g_el_n == 0 && g_wl_n == 0)
__CPROVER_ensures(OB == NULL ==> (!RET && g_el_n == 0 && g_wl_n == 0)) /*@C05*/
/* opening brace (and a newline when formatting) at the offset the writer was given */
__CPROVER_ensures(OB != NULL ==> (g_el_n >= 1 && EL(0).off == OLD_OFF && EL(0).needed >= PO_OLEN + 1 && EL(0).needed <= PO_OLEN + 5 && (!EL(0).ok || (EL(0).win[0] == '{' && (!PO_F || EL(0).win[1] == '\n'))))) /*@C05 C04 C09*/
__CPROVER_ensures(OB != NULL ==> (g_wl_n <= (size_t)(2 * PO_N) && g_el_n <= (size_t)PO_CLOSE + 1)) /*@C05*/
PO_MEMBER(0, PO_MSTART0)
#if PO_K >= 2
PO_MEMBER(1, PO_MSTART1)
#endif
/* success: every member was printed; behind the last one come depth-1 tabs when formatting, the closing brace and the terminator; the offset
 * points at that text (the caller's update_offset moves on); the depth is what it was.  One instance per member count, so that the index of the
 * closing reservation is a constant. */
#define PO_CLOSING(n, ci, endoff) \
__CPROVER_ensures((RET && PO_N == (n)) ==> (g_wl_n == (size_t)(2 * (n)) && g_el_n == (size_t)(ci) + 1 && EL(ci).off == (endoff) && OB->offset == (endoff) && OB->depth == OLD_DEPTH && OLD_DEPTH == PO_OD)) /*@C05 C04 C09*/ \
__CPROVER_ensures((RET && PO_N == (n) && !PO_F) ==> (EL(ci).needed >= 2 && EL(ci).needed <= 6 && EL(ci).win[0] == '}' && EL(ci).win[1] == 0)) /*@C05 C04 C09*/ \
__CPROVER_ensures((RET && PO_N == (n) && PO_F) ==> (EL(ci).needed >= PO_OD + 2 && EL(ci).needed <= PO_OD + 6 && TABS_UPTO(EL(ci).win, PO_OD) && \
    (PO_OD == 0 ? (EL(ci).win[0] == '}' && EL(ci).win[1] == 0) : PO_OD == 1 ? (EL(ci).win[1] == '}' && EL(ci).win[2] == 0) : (EL(ci).win[2] == '}' && EL(ci).win[3] == 0)) && PO_OD <= 2)) /*@C05 C04 C09*/ \
__CPROVER_ensures((RET && PO_N == (n)) ==> (OB->offset >= OLD_OFF && OB->length <= INT_MAX && OB->offset + EL(ci).needed + 1 <= OB->length)) /*@C09*/
PO_CLOSING(0, 1, PO_MSTART0)
PO_CLOSING(1, 1 + PO_STRIDE, PO_AFTER(0))
#if PO_K >= 2
PO_CLOSING(2, 1 + 2 * PO_STRIDE, PO_AFTER(1))
#endif
ALL_OK_OR_FAIL
__CPROVER_ensures(OB == NULL || TR(OB)) /*@C08*/
__CPROVER_assigns(GHOST_PC, GHOST_ALLOC; OB != NULL: OB->buffer, OB->length, OB->offset, OB->depth);
#endif
#endif
