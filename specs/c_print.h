/* ================================================================== printing (C04, C05, C08, C09, C14) */
/* ghost record of the last ensure() call as seen by a writer (callee view), and of delegated writers */
struct vf_ens_ghost { unsigned char * ens_win; _Bool ens_ok; size_t ens_needed; size_t ens_calls; } g_en;
#define g_ens_win g_en.ens_win
#define g_ens_ok g_en.ens_ok
#define g_ens_needed g_en.ens_needed
#define g_ens_calls g_en.ens_calls
#define GHOST_ENS g_en
_Bool g_pv_nullbuf;   /* ghost: the value printer came back with a released (NULL) buffer */
unsigned char g_snap;      /* ghost snapshot: byte of the old buffer at index g_k (constrained by a requires clause) */

/* print buffer invariant, derived from the code: length == 0 is reachable (cJSON_PrintBuffered(item, 0, fmt),
 * cJSON_PrintPreallocated(.., 0, ..)) and then offset == 0; otherwise offset < length. */
#define PR_SHAPE(p) ((p)->length <= INT_MAX && ((p)->length == 0 ? (p)->offset == 0 : (p)->offset < (p)->length))
#define PR_FRESH(p) (__CPROVER_is_fresh((p), sizeof(printbuffer)) && (p)->length <= INT_MAX && __CPROVER_is_fresh((p)->buffer, (p)->length) && PR_SHAPE(p) && HOOKS_OK((p)->hooks))
#define ENS_NEED(p, needed) (__CPROVER_old((p)->offset) + (needed) + 1)
#define ENS_FITS(p, needed) ((needed) <= INT_MAX && ENS_NEED(p, needed) <= __CPROVER_old((p)->length))

/* the tracked block follows the print buffer: an unrelated tracked block stays what it is (and is not the buffer); otherwise the tracked block is the current buffer or nothing */
#define TR(p) ((__CPROVER_old(g_live) != NULL && __CPROVER_old(g_live) != (void*)__CPROVER_old((p)->buffer)) ? (g_live == __CPROVER_old(g_live) && g_live != (void*)(p)->buffer) : (g_live == NULL || g_live == (void*)(p)->buffer))

/* ------------------------------------------------------------------ ensure */
#ifdef VF_ENF_ensure
#ifdef VF_ENS_NOFREED
#define FREED_OLD
#else
#define FREED_OLD && __CPROVER_was_freed(__CPROVER_old(p->buffer))
#endif
static unsigned char* ensure(printbuffer * const p, size_t needed)
__CPROVER_requires(PR_FRESH(p))
#ifndef VF_ENS_NOCONTENT
__CPROVER_requires(g_snap == ((g_k < p->length) ? p->buffer[g_k] : 0))
#endif
/* success: the returned pointer is buffer+offset and needed+1 bytes are available there (C09: writers stay inside) */
__CPROVER_ensures(__CPROVER_return_value != NULL ==> (p->buffer != NULL && __CPROVER_return_value == p->buffer + p->offset && p->offset == __CPROVER_old(p->offset) &&
    p->offset + needed + 1 <= p->length && __CPROVER_w_ok(p->buffer, p->length))) /*@C09 C04 C05*/
/* caller-supplied buffer: never reallocated, no hook called, success exactly when the request fits (monotone in length) */
__CPROVER_ensures(__CPROVER_old(p->noalloc) ==> (p->buffer == __CPROVER_old(p->buffer) && p->length == __CPROVER_old(p->length) && g_hook_allocs == __CPROVER_old(g_hook_allocs) && g_hook_frees == __CPROVER_old(g_hook_frees))) /*@C09*/
__CPROVER_ensures(__CPROVER_old(p->noalloc) ==> ((__CPROVER_return_value != NULL) == ENS_FITS(p, needed))) /*@C09*/
/* a request that fits never reallocates */
__CPROVER_ensures(ENS_FITS(p, needed) ==> (__CPROVER_return_value != NULL && p->buffer == __CPROVER_old(p->buffer) && p->length == __CPROVER_old(p->length))) /*@C09 C04*/
/* growth: the new buffer is large enough (how much larger is the implementation's business) and never above INT_MAX; what was printed so far is kept byte for byte (C04: result independent of buffer size / realloc) */
__CPROVER_ensures((__CPROVER_return_value != NULL && !ENS_FITS(p, needed)) ==> (p->length >= ENS_NEED(p, needed) && p->length <= INT_MAX FREED_OLD)) /*@C04 C07*/
#ifndef VF_ENS_NOCONTENT
__CPROVER_ensures((__CPROVER_return_value != NULL && g_k <= p->offset && g_k < __CPROVER_old(p->length)) ==> p->buffer[g_k] == g_snap) /*@C04*/
#endif
/* allocation failure while growing: the old buffer is released and the buffer is cleared (C08) */
__CPROVER_ensures((__CPROVER_return_value == NULL && p->buffer != __CPROVER_old(p->buffer)) ==> (p->buffer == NULL && p->length == 0 && !__CPROVER_old(p->noalloc) FREED_OLD)) /*@C08 C07 C14*/
__CPROVER_ensures((__CPROVER_return_value == NULL && p->buffer == __CPROVER_old(p->buffer)) ==> (p->length == __CPROVER_old(p->length) && g_hook_frees == __CPROVER_old(g_hook_frees))) /*@C08 C07 C14*/
/* the only tracked block that may appear is the new buffer; the old one disappears only by being released */
#ifndef VF_ENS_NOLIVE
__CPROVER_ensures(TR(p)) /*@C08 C07*/
__CPROVER_ensures(g_live == __CPROVER_old(g_live) || (g_live == NULL && __CPROVER_old(g_live) == __CPROVER_old((void*)p->buffer)) || (g_live != NULL && g_live == (void*)p->buffer)) /*@C08 C07*/
#endif
__CPROVER_ensures(C14_POST(p->hooks)) /*@C14*/
__CPROVER_ensures(HOOKS_CUSTOM(p->hooks) ==> g_hook_allocs - __CPROVER_old(g_hook_allocs) <= 1) /*@C14*/
__CPROVER_assigns(p->buffer, p->length, GHOST_ALLOC)
__CPROVER_frees(p->buffer);
#else
/* callee view for writers: the reservation is presented as a separate fresh object of exactly needed+1 bytes, so any write
 * outside [ret, ret+needed] fails a pointer obligation in the writer's proof; ensure's own unit proves ret == buffer+offset and
 * that needed+1 bytes are available there.  g_ens_win is assigned by is_fresh and the return value gets its provenance from
 * pointer_in_range_dfcc (a pointer constrained only by an assumed equality cannot be dereferenced, DESIGN 6). */
static unsigned char* ensure(printbuffer * const p, size_t needed)
__CPROVER_requires(__CPROVER_is_fresh(p, sizeof(printbuffer)) && needed <= VF_MAXLEN)
__CPROVER_ensures(__CPROVER_return_value == NULL || (__CPROVER_is_fresh(g_ens_win, needed + 1) &&
    __CPROVER_pointer_in_range_dfcc(g_ens_win, __CPROVER_return_value, g_ens_win + needed) && __CPROVER_return_value == g_ens_win))
__CPROVER_ensures(g_ens_ok == (__CPROVER_return_value != NULL) && g_ens_needed == needed && g_ens_calls == __CPROVER_old(g_ens_calls) + 1)
__CPROVER_ensures(LIVE_SAME)
__CPROVER_assigns(p->buffer, p->length, GHOST_ENS, GHOST_ALLOC);
#endif

/* ------------------------------------------------------------------ print_number
 * models: sprintf by literal format (width bounds), sscanf("%lg") unconstrained. */
#define IS_NONFINITE(d) (__CPROVER_isnand(d) || __CPROVER_isinfd(d))
#define OB_AT(i) (g_ens_win[i])   /* byte i of the last reservation */
static cJSON_bool print_number(const cJSON * const item, printbuffer * const output_buffer)
__CPROVER_requires(__CPROVER_is_fresh(item, sizeof(cJSON)) && LOCALE_OK && g_ens_calls == 0)
__CPROVER_requires(output_buffer == NULL || (__CPROVER_is_fresh(output_buffer, sizeof(printbuffer)) && output_buffer->offset <= INT_MAX))
__CPROVER_ensures(output_buffer == NULL ==> !__CPROVER_return_value) /*@C05*/
/* exactly one reservation of text+1 bytes; false iff it fails; the offset advances by the text length (<= 25) */
__CPROVER_ensures(output_buffer != NULL ==> (g_ens_calls == 1 && g_ens_needed >= 2 && g_ens_needed <= 26 && (__CPROVER_return_value != 0) == g_ens_ok)) /*@C09 C05 C08*/
__CPROVER_ensures(__CPROVER_return_value ==> (output_buffer->offset == __CPROVER_old(output_buffer->offset) + g_ens_needed - 1 && OB_AT(g_ens_needed - 1) == '\0')) /*@C09 C05*/
__CPROVER_ensures((output_buffer != NULL && !__CPROVER_return_value) ==> output_buffer->offset == __CPROVER_old(output_buffer->offset)) /*@C09*/
/* non-finite numbers are printed as null (C05) */
__CPROVER_ensures((__CPROVER_return_value && IS_NONFINITE(item->valuedouble)) ==> (g_ens_needed == 5 && OB_AT(0) == 'n' && OB_AT(1) == 'u' && OB_AT(2) == 'l' && OB_AT(3) == 'l')) /*@C05 C04*/
/* no byte equal to the locale's decimal point survives: it is normalised to '.' (C05) */
__CPROVER_ensures((__CPROVER_return_value && g_k < g_ens_needed - 1 && VF_DECIMAL_POINT != '.') ==> OB_AT(g_k) != VF_DECIMAL_POINT) /*@C05*/
/* which rendering was chosen (ghost g_fmt set by the sprintf models): %d iff the double equals the integer view (C05: plain decimal
 * integer); otherwise 15 digits only if it was read back and compares equal, else 17 digits (C04) */
__CPROVER_ensures((__CPROVER_return_value && !IS_NONFINITE(item->valuedouble) && item->valuedouble == (double)item->valueint) ==> g_fmt == FMT_D) /*@C05 C04*/
__CPROVER_ensures((__CPROVER_return_value && !IS_NONFINITE(item->valuedouble) && item->valuedouble != (double)item->valueint) ==> (g_fmt == FMT_17G || (g_fmt == FMT_15G && g_scan_ok && SPEC_DEQ(g_scan_value, item->valuedouble)))) /*@C04*/
__CPROVER_ensures(LIVE_SAME) /*@C08*/
__CPROVER_assigns(GHOST_ENS, GHOST_ALLOC, GHOST_FMT; output_buffer != NULL: output_buffer->offset, output_buffer->buffer, output_buffer->length);

/* ------------------------------------------------------------------ writers as callees (callee views with a log) */
/* snapshot of the print buffer a delegated writer received */
struct vf_wb_ghost { unsigned char * wb_buffer; size_t wb_length; size_t wb_offset; size_t wb_depth; cJSON_bool wb_noalloc; cJSON_bool wb_format; const cJSON * wb_item; size_t wb_calls; void *(*wb_alloc)(size_t); void (*wb_free)(void*); void *(*wb_realloc)(void*, size_t); } g_wbg;
#define g_wb_buffer g_wbg.wb_buffer
#define g_wb_length g_wbg.wb_length
#define g_wb_offset g_wbg.wb_offset
#define g_wb_depth g_wbg.wb_depth
#define g_wb_noalloc g_wbg.wb_noalloc
#define g_wb_format g_wbg.wb_format
#define g_wb_item g_wbg.wb_item
#define g_wb_calls g_wbg.wb_calls
#define g_wb_alloc g_wbg.wb_alloc
#define g_wb_free g_wbg.wb_free
#define g_wb_realloc g_wbg.wb_realloc
#define GHOST_WB g_wbg
#define WB_LOGGED(item, p) (g_wb_item == (item) && g_wb_buffer == __CPROVER_old((p)->buffer) && g_wb_length == __CPROVER_old((p)->length) && \
    g_wb_offset == __CPROVER_old((p)->offset) && g_wb_depth == __CPROVER_old((p)->depth) && g_wb_noalloc == __CPROVER_old((p)->noalloc) && g_wb_format == __CPROVER_old((p)->format) && \
    g_wb_alloc == __CPROVER_old((p)->hooks.allocate) && g_wb_free == __CPROVER_old((p)->hooks.deallocate) && g_wb_realloc == __CPROVER_old((p)->hooks.reallocate) && \
    g_wb_calls == __CPROVER_old(g_wb_calls) + 1)
#define WRITER_CV(name, tag) \
static cJSON_bool name(const cJSON * const item, printbuffer * const output_buffer) \
__CPROVER_requires(__CPROVER_is_fresh(item, sizeof(cJSON)) && __CPROVER_is_fresh(output_buffer, sizeof(printbuffer))) \
__CPROVER_ensures(g_disp == (tag) && g_disp_ret == __CPROVER_return_value && WB_LOGGED(item, output_buffer)) \
__CPROVER_ensures(__CPROVER_return_value ==> (output_buffer->depth == __CPROVER_old(output_buffer->depth) && output_buffer->offset >= __CPROVER_old(output_buffer->offset))) \
__CPROVER_ensures(LIVE_SAME) \
__CPROVER_assigns(output_buffer->buffer, output_buffer->length, output_buffer->offset, output_buffer->depth, GHOST_LOG, GHOST_WB, GHOST_ALLOC);
#ifdef VF_ENF_print_value
WRITER_CV(print_number_cv, D_NUMBER)
WRITER_CV(print_string, D_STRING)
WRITER_CV(print_array, D_ARRAY)
WRITER_CV(print_object, D_OBJECT)
#endif

/* ------------------------------------------------------------------ print_value */
#define PV_T (item->type & 0xFF)
/* the reservation covers text + terminator and at most 4 bytes more (so that the C09 slack of five bytes holds together with ensure's own spare byte) */
#define PV_LIT_CALL(n) (g_ens_calls == 1 && g_ens_needed >= (n) && g_ens_needed <= (n) + 4 && (__CPROVER_return_value != 0) == g_ens_ok && \
    output_buffer->offset == __CPROVER_old(output_buffer->offset) && g_disp == D_NONE)
#define PV_LIT_TEXT(n, a, b, c, d, e) (!__CPROVER_return_value || (OB_AT(0) == (a) && OB_AT(1) == (b) && OB_AT(2) == (c) && OB_AT(3) == (d) && OB_AT(4) == (e) && OB_AT((n) - 1) == 0))
#define PV_DELEGATED(tag) (g_disp == (tag) && __CPROVER_return_value == g_disp_ret && g_wb_calls == 1 && g_wb_item == item && g_ens_calls == 0)
#ifdef VF_ENF_print_value
static cJSON_bool print_value(const cJSON * const item, printbuffer * const output_buffer)
__CPROVER_requires(item == NULL || (__CPROVER_is_fresh(item, sizeof(cJSON)) && (item->valuestring == NULL || STR(item->valuestring, g_str_n))))
__CPROVER_requires(output_buffer == NULL || __CPROVER_is_fresh(output_buffer, sizeof(printbuffer)))
__CPROVER_requires(g_ens_calls == 0 && g_wb_calls == 0 && g_disp == D_NONE)
__CPROVER_ensures((item == NULL || output_buffer == NULL) ==> (!__CPROVER_return_value && g_ens_calls == 0 && g_wb_calls == 0)) /*@C05*/
/* literals: exactly the RFC spelling plus terminator, in a reservation of exactly that size; ownership flags are ignored (type & 0xFF) */
__CPROVER_ensures((item != NULL && output_buffer != NULL && PV_T == cJSON_NULL) ==> PV_LIT_CALL(5)) /*@C05 C09 C04*/
__CPROVER_ensures((item != NULL && output_buffer != NULL && PV_T == cJSON_NULL) ==> PV_LIT_TEXT(5, 'n', 'u', 'l', 'l', 0)) /*@C05 C04*/
__CPROVER_ensures((item != NULL && output_buffer != NULL && PV_T == cJSON_True) ==> PV_LIT_CALL(5)) /*@C05 C09 C04*/
__CPROVER_ensures((item != NULL && output_buffer != NULL && PV_T == cJSON_True) ==> PV_LIT_TEXT(5, 't', 'r', 'u', 'e', 0)) /*@C05 C04*/
__CPROVER_ensures((item != NULL && output_buffer != NULL && PV_T == cJSON_False) ==> PV_LIT_CALL(6)) /*@C05 C09 C04*/
__CPROVER_ensures((item != NULL && output_buffer != NULL && PV_T == cJSON_False) ==> PV_LIT_TEXT(6, 'f', 'a', 'l', 's', 'e')) /*@C05 C04*/
/* raw text is copied with its terminator; a raw item without text is refused */
__CPROVER_ensures((item != NULL && output_buffer != NULL && PV_T == cJSON_Raw && item->valuestring == NULL) ==> (!__CPROVER_return_value && g_ens_calls == 0)) /*@C05*/
__CPROVER_ensures((item != NULL && output_buffer != NULL && PV_T == cJSON_Raw && item->valuestring != NULL) ==> (g_ens_calls == 1 && g_ens_needed >= 1 && g_ens_needed <= g_str_n &&
    item->valuestring[g_ens_needed - 1] == 0 && (__CPROVER_return_value != 0) == g_ens_ok && g_disp == D_NONE)) /*@C05 C09*/
__CPROVER_ensures((item != NULL && output_buffer != NULL && PV_T == cJSON_Raw && item->valuestring != NULL && __CPROVER_return_value && g_k < g_ens_needed) ==> OB_AT(g_k) == (unsigned char)item->valuestring[g_k]) /*@C05*/
/* the four composite writers are chosen by type and their verdict is returned unchanged, with the same item and buffer */
__CPROVER_ensures((item != NULL && output_buffer != NULL && PV_T == cJSON_Number) ==> PV_DELEGATED(D_NUMBER)) /*@C05 C04*/
__CPROVER_ensures((item != NULL && output_buffer != NULL && PV_T == cJSON_String) ==> PV_DELEGATED(D_STRING)) /*@C05 C04*/
__CPROVER_ensures((item != NULL && output_buffer != NULL && PV_T == cJSON_Array)  ==> PV_DELEGATED(D_ARRAY)) /*@C05 C04*/
__CPROVER_ensures((item != NULL && output_buffer != NULL && PV_T == cJSON_Object) ==> PV_DELEGATED(D_OBJECT)) /*@C05 C04*/
/* anything else (invalid type, several type bits) is refused without output */
__CPROVER_ensures((item != NULL && output_buffer != NULL && PV_T != cJSON_NULL && PV_T != cJSON_True && PV_T != cJSON_False && PV_T != cJSON_Raw && PV_T != cJSON_Number &&
    PV_T != cJSON_String && PV_T != cJSON_Array && PV_T != cJSON_Object) ==> (!__CPROVER_return_value && g_ens_calls == 0 && g_wb_calls == 0)) /*@C05*/
/* a successful value printer leaves the nesting depth as it found it and never moves the offset backwards (what print_array / print_object rely on, specs/c_printcont.h) */
__CPROVER_ensures((item != NULL && output_buffer != NULL && __CPROVER_return_value) ==> (output_buffer->depth == __CPROVER_old(output_buffer->depth) && output_buffer->offset >= __CPROVER_old(output_buffer->offset))) /*@C05 C09*/
__CPROVER_ensures(LIVE_SAME) /*@C08*/
__CPROVER_assigns(GHOST_ENS, GHOST_ALLOC, GHOST_LOG, GHOST_WB; output_buffer != NULL: output_buffer->buffer, output_buffer->length, output_buffer->offset, output_buffer->depth);
#endif

/* ------------------------------------------------------------------ update_offset (strlen model with a hinted terminator) */
#define UO_USABLE(b) ((b) != NULL && (b)->buffer != NULL)
static void update_offset(printbuffer * const buffer)
#ifdef VF_ENF_update_offset
__CPROVER_requires(buffer == NULL || (__CPROVER_is_fresh(buffer, sizeof(printbuffer)) && (buffer->buffer == NULL || (buffer->length <= VF_MAXLEN &&
    __CPROVER_is_fresh(buffer->buffer, buffer->length) && buffer->offset < buffer->length && g_nul_at < buffer->length - buffer->offset && buffer->buffer[buffer->offset + g_nul_at] == 0))))
#else
__CPROVER_requires(__CPROVER_is_fresh(buffer, sizeof(printbuffer)) && buffer->buffer != NULL && buffer->offset < buffer->length && g_nul_at < buffer->length - buffer->offset &&
    __CPROVER_r_ok(buffer->buffer, buffer->length) && buffer->buffer[buffer->offset + g_nul_at] == 0)
#endif
/* the offset moves to the first NUL at or after it */
__CPROVER_ensures(UO_USABLE(buffer) ==> (buffer->offset >= __CPROVER_old(buffer->offset) && buffer->offset - __CPROVER_old(buffer->offset) <= g_nul_at && buffer->buffer[buffer->offset] == 0)) /*@C04 C05 C09*/
__CPROVER_ensures((UO_USABLE(buffer) && g_k < buffer->offset - __CPROVER_old(buffer->offset)) ==> buffer->buffer[__CPROVER_old(buffer->offset) + g_k] != 0) /*@C04 C05*/
__CPROVER_assigns(UO_USABLE(buffer): buffer->offset);

/* ------------------------------------------------------------------ print_value as seen by the entry points (callee views) */
unsigned char g_txt_k;   /* ghost: byte g_k of the text print_value left in the buffer */
#ifdef VF_VIEW_PV_ALLOC
/* allocating callers: afterwards the buffer is NULL (released after an allocation failure) or a live block of `length` bytes;
 * on success a NUL-terminated token starts at the (old) offset; the tracked block, if it was the buffer, is now the current buffer */
static cJSON_bool print_value(const cJSON * const item, printbuffer * const output_buffer)
__CPROVER_requires(__CPROVER_is_fresh(output_buffer, sizeof(printbuffer)))
__CPROVER_ensures(g_disp == D_VALUE && g_disp_ret == __CPROVER_return_value && WB_LOGGED(item, output_buffer))
__CPROVER_ensures(__CPROVER_return_value ==> (__CPROVER_is_fresh(output_buffer->buffer, output_buffer->length) && output_buffer->length <= INT_MAX && output_buffer->offset < output_buffer->length &&
    g_nul_at < output_buffer->length - output_buffer->offset && output_buffer->buffer[output_buffer->offset + g_nul_at] == 0 &&
    (g_k >= output_buffer->length || output_buffer->buffer[g_k] == g_txt_k) && g_pv_end == output_buffer->offset))
__CPROVER_ensures(!__CPROVER_return_value ==> (g_pv_nullbuf ? (output_buffer->buffer == NULL && output_buffer->length == 0) : (__CPROVER_is_fresh(output_buffer->buffer, output_buffer->length) && output_buffer->length <= INT_MAX)))
__CPROVER_ensures((__CPROVER_old(g_live) != NULL && __CPROVER_old(g_live) == (void*)__CPROVER_old(output_buffer->buffer)) ? g_live == (void*)output_buffer->buffer : LIVE_SAME)
__CPROVER_ensures(C14_POST(output_buffer->hooks))
__CPROVER_assigns(output_buffer->buffer, output_buffer->length, output_buffer->offset, output_buffer->depth, GHOST_LOG, GHOST_WB, GHOST_ALLOC, g_nul_at, g_txt_k, g_pv_nullbuf);
#endif
#ifdef VF_VIEW_PV_LOG
static cJSON_bool print_value(const cJSON * const item, printbuffer * const output_buffer)
__CPROVER_requires(__CPROVER_is_fresh(output_buffer, sizeof(printbuffer)))
__CPROVER_ensures(g_disp == D_VALUE && g_disp_ret == __CPROVER_return_value && WB_LOGGED(item, output_buffer))
__CPROVER_ensures(output_buffer->buffer == __CPROVER_old(output_buffer->buffer) && output_buffer->length == __CPROVER_old(output_buffer->length))
__CPROVER_ensures(LIVE_SAME && g_hook_allocs == __CPROVER_old(g_hook_allocs) && g_hook_frees == __CPROVER_old(g_hook_frees) && g_libc_calls == __CPROVER_old(g_libc_calls))
__CPROVER_assigns(output_buffer->offset, output_buffer->depth, GHOST_LOG, GHOST_WB, GHOST_ALLOC);
#endif

/* ------------------------------------------------------------------ print  (cJSON_Print / cJSON_PrintUnformatted) */
#define WB_START(fmt, noal, h) (g_wb_calls == 1 && g_wb_item == item && g_wb_offset == 0 && g_wb_depth == 0 && g_wb_format == (fmt) && g_wb_noalloc == (noal) && \
    g_wb_alloc == (h).allocate && g_wb_free == (h).deallocate && g_wb_realloc == (h).reallocate)
#define NET_BLOCKS (g_hook_allocs - g_hook_frees)
#define OLD_NET_BLOCKS (__CPROVER_old(g_hook_allocs) - __CPROVER_old(g_hook_frees))
static unsigned char *print(const cJSON * const item, cJSON_bool format, const internal_hooks * const hooks)
__CPROVER_requires(__CPROVER_is_fresh(hooks, sizeof(internal_hooks)) && HOOKS_OK(*hooks) && g_wb_calls == 0 && g_live == NULL)
/* the value printer is started once on the item, at offset 0 and depth 0, with the requested format, allocation allowed, the caller's hooks, a 256-byte block */
__CPROVER_ensures(g_wb_calls <= 1 && (g_wb_calls == 1 ==> WB_START(format, 0, *hooks))) /*@C05 C04 C14*/
__CPROVER_ensures(__CPROVER_return_value != NULL ==> (g_wb_calls == 1 && g_disp_ret)) /*@C05 C08*/
/* failure of the printer or of any allocation: NULL and nothing stays allocated */
__CPROVER_ensures((g_wb_calls == 1 && !g_disp_ret) ==> __CPROVER_return_value == NULL) /*@C08 C05*/
__CPROVER_ensures(__CPROVER_return_value == NULL ==> (g_live == NULL)) /*@C08 C07*/
/* success: exactly one block remains, it is what is returned, it starts a block of the installed allocator (so cJSON_free accepts it),
 * and it holds the printed text followed by its terminator, byte for byte what the value printer left in its buffer */
__CPROVER_ensures(__CPROVER_return_value != NULL ==> (__CPROVER_POINTER_OFFSET(__CPROVER_return_value) == 0 &&
    __CPROVER_DYNAMIC_OBJECT(__CPROVER_return_value) && (g_live == NULL || g_live == (void*)__CPROVER_return_value))) /*@C14 C07 C08*/
#define RET_SIZE __CPROVER_OBJECT_SIZE(__CPROVER_return_value)
__CPROVER_ensures(__CPROVER_return_value != NULL ==> (RET_SIZE >= 1 && RET_SIZE - 1 >= g_pv_end && RET_SIZE - 1 - g_pv_end <= g_nul_at)) /*@C04 C05*/
__CPROVER_ensures((__CPROVER_return_value != NULL && g_k2 == RET_SIZE - 1) ==> __CPROVER_return_value[g_k2] == 0) /*@C04 C05*/
__CPROVER_ensures((__CPROVER_return_value != NULL && g_k < RET_SIZE - 1) ==> __CPROVER_return_value[g_k] == g_txt_k) /*@C04 C05*/
__CPROVER_ensures(C14_POST(*hooks)) /*@C14*/
__CPROVER_assigns(GHOST_LOG, GHOST_WB, GHOST_ALLOC, g_nul_at, g_txt_k, g_pv_nullbuf);

CJSON_PUBLIC(char *) cJSON_PrintBuffered(const cJSON *item, int prebuffer, cJSON_bool fmt)
__CPROVER_requires(HOOKS_OK(global_hooks) && g_wb_calls == 0 && g_live == NULL)
__CPROVER_ensures(prebuffer < 0 ==> (__CPROVER_return_value == NULL && g_wb_calls == 0 && g_hook_allocs == __CPROVER_old(g_hook_allocs))) /*@C05 C08*/
__CPROVER_ensures(g_wb_calls <= 1 && (g_wb_calls == 1 ==> (WB_START(fmt, 0, global_hooks) && g_wb_length == (size_t)prebuffer))) /*@C05 C04 C14*/
__CPROVER_ensures((g_wb_calls == 1 && !g_disp_ret) ==> __CPROVER_return_value == NULL) /*@C08 C05*/
__CPROVER_ensures(__CPROVER_return_value != NULL ==> (g_wb_calls == 1 && g_disp_ret)) /*@C05 C08*/
__CPROVER_ensures(__CPROVER_return_value == NULL ==> (g_live == NULL)) /*@C08 C07*/
__CPROVER_ensures(__CPROVER_return_value != NULL ==> (__CPROVER_POINTER_OFFSET(__CPROVER_return_value) == 0 &&
    __CPROVER_DYNAMIC_OBJECT(__CPROVER_return_value) && (g_live == NULL || g_live == (void*)__CPROVER_return_value))) /*@C14 C07 C08*/
__CPROVER_ensures((__CPROVER_return_value != NULL && g_k < __CPROVER_OBJECT_SIZE(__CPROVER_return_value)) ==> ((unsigned char*)__CPROVER_return_value)[g_k] == g_txt_k) /*@C05 C04*/
__CPROVER_ensures(C14_POST(global_hooks)) /*@C14*/
__CPROVER_assigns(GHOST_LOG, GHOST_WB, GHOST_ALLOC, g_nul_at, g_txt_k, g_pv_nullbuf);

CJSON_PUBLIC(cJSON_bool) cJSON_PrintPreallocated(cJSON *item, char *buffer, const int length, const cJSON_bool format)
__CPROVER_requires(HOOKS_OK(global_hooks) && g_wb_calls == 0 && (buffer == NULL || __CPROVER_is_fresh(buffer, length < 0 ? 0 : (size_t)length)))
/* refused without touching anything when the length is negative or there is no buffer */
__CPROVER_ensures((length < 0 || buffer == NULL) ==> (!__CPROVER_return_value && g_wb_calls == 0)) /*@C09*/
/* otherwise the value printer runs once over exactly the caller's buffer [0, length), allocation forbidden, and its verdict is returned */
__CPROVER_ensures((length >= 0 && buffer != NULL) ==> (WB_START(format, 1, global_hooks) && g_wb_buffer == (unsigned char*)buffer && g_wb_length == (size_t)length && __CPROVER_return_value == g_disp_ret)) /*@C09 C05*/
__CPROVER_ensures(LIVE_SAME && g_hook_allocs == __CPROVER_old(g_hook_allocs) && g_hook_frees == __CPROVER_old(g_hook_frees) && g_libc_calls == __CPROVER_old(g_libc_calls)) /*@C09 C14 C08*/
__CPROVER_assigns(GHOST_LOG, GHOST_WB, GHOST_ALLOC);

/* cJSON_Print / cJSON_PrintUnformatted: forward to print with format 1 / 0 and the global hooks */
const cJSON *g_pr_item; cJSON_bool g_pr_format; const internal_hooks *g_pr_hooks; unsigned char *g_pr_ret; size_t g_pr_calls;
#define GHOST_PR g_pr_item, g_pr_format, g_pr_hooks, g_pr_ret, g_pr_calls
#if defined(VF_ENF_cJSON_Print) || defined(VF_ENF_cJSON_PrintUnformatted)
static unsigned char *print_cv(const cJSON * const item, cJSON_bool format, const internal_hooks * const hooks)
__CPROVER_requires(hooks == &global_hooks)
__CPROVER_ensures(g_pr_item == item && g_pr_format == format && g_pr_hooks == hooks && g_pr_ret == __CPROVER_return_value && g_pr_calls == __CPROVER_old(g_pr_calls) + 1)
__CPROVER_assigns(GHOST_PR, GHOST_ALLOC);
#endif
CJSON_PUBLIC(char *) cJSON_Print(const cJSON *item)
__CPROVER_requires(g_pr_calls == 0)
__CPROVER_ensures(g_pr_calls == 1 && g_pr_item == item && g_pr_format == 1 && g_pr_hooks == &global_hooks && (unsigned char*)__CPROVER_return_value == g_pr_ret) /*@C05 C04*/
__CPROVER_assigns(GHOST_PR, GHOST_ALLOC);
CJSON_PUBLIC(char *) cJSON_PrintUnformatted(const cJSON *item)
__CPROVER_requires(g_pr_calls == 0)
__CPROVER_ensures(g_pr_calls == 1 && g_pr_item == item && g_pr_format == 0 && g_pr_hooks == &global_hooks && (unsigned char*)__CPROVER_return_value == g_pr_ret) /*@C05 C04*/
__CPROVER_assigns(GHOST_PR, GHOST_ALLOC);
