/* Contracts on the real functions of cJSON_Utils.c */
#ifndef VF_CONTRACTS_UTILS_H
#define VF_CONTRACTS_UTILS_H
#define RET __CPROVER_return_value
#endif
