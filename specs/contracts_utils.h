/* Contracts on the real functions of cJSON_Utils.c */
#ifndef VF_CONTRACTS_UTILS_H
#define VF_CONTRACTS_UTILS_H
#define RET __CPROVER_return_value

#ifdef VF_UTILS_WRAPPERS
#include "c_isarray.h"
/* ------------------------------------------------------------------ thin public wrappers of cJSON_Utils.c
 * Each static worker is replaced by a *logging view* (arguments and answer recorded in g_uw, answer arbitrary); the wrapper's
 * enforced contract says: exactly one call of the worker, with the caller's arguments and the case mode the wrapper's name
 * promises, and the worker's answer is returned unchanged.  Frame: nothing but the log (C20). */
struct vf_uw_log { const void *a, *b; cJSON_bool cs; const void *ret; size_t calls; } g_uw;

static cJSON *get_item_from_pointer(cJSON * const object, const char * pointer, const cJSON_bool case_sensitive)
__CPROVER_requires(1)
__CPROVER_ensures(g_uw.a == object && g_uw.b == pointer && g_uw.cs == case_sensitive && g_uw.ret == RET && g_uw.calls == __CPROVER_old(g_uw.calls) + 1)
__CPROVER_assigns(g_uw);

static void sort_object(cJSON * const object, const cJSON_bool case_sensitive)
__CPROVER_requires(1)
__CPROVER_ensures(g_uw.a == object && g_uw.cs == case_sensitive && g_uw.calls == __CPROVER_old(g_uw.calls) + 1)
__CPROVER_assigns(g_uw);

static cJSON *merge_patch(cJSON *target, const cJSON * const patch, const cJSON_bool case_sensitive)
__CPROVER_requires(1)
__CPROVER_ensures(g_uw.a == target && g_uw.b == patch && g_uw.cs == case_sensitive && g_uw.ret == RET && g_uw.calls == __CPROVER_old(g_uw.calls) + 1)
__CPROVER_assigns(g_uw);

static cJSON *generate_merge_patch(cJSON * const from, cJSON * const to, const cJSON_bool case_sensitive)
__CPROVER_requires(1)
__CPROVER_ensures(g_uw.a == from && g_uw.b == to && g_uw.cs == case_sensitive && g_uw.ret == RET && g_uw.calls == __CPROVER_old(g_uw.calls) + 1)
__CPROVER_assigns(g_uw);

#define UW_FWD2(a_, b_, cs_) (g_uw.calls == __CPROVER_old(g_uw.calls) + 1 && g_uw.a == (a_) && g_uw.b == (b_) && g_uw.cs == (cs_) && RET == g_uw.ret)

CJSON_PUBLIC(cJSON *) cJSONUtils_GetPointer(cJSON * const object, const char *pointer)
__CPROVER_requires(1)
__CPROVER_ensures(UW_FWD2(object, pointer, 0)) /*@C15*/
__CPROVER_assigns(g_uw);
CJSON_PUBLIC(cJSON *) cJSONUtils_GetPointerCaseSensitive(cJSON * const object, const char *pointer)
__CPROVER_requires(1)
__CPROVER_ensures(UW_FWD2(object, pointer, 1)) /*@C15*/
__CPROVER_assigns(g_uw);
CJSON_PUBLIC(cJSON *) cJSONUtils_MergePatch(cJSON *target, const cJSON * const patch)
__CPROVER_requires(1)
__CPROVER_ensures(UW_FWD2(target, patch, 0)) /*@C18*/
__CPROVER_assigns(g_uw);
CJSON_PUBLIC(cJSON *) cJSONUtils_MergePatchCaseSensitive(cJSON *target, const cJSON * const patch)
__CPROVER_requires(1)
__CPROVER_ensures(UW_FWD2(target, patch, 1)) /*@C18*/
__CPROVER_assigns(g_uw);
CJSON_PUBLIC(cJSON *) cJSONUtils_GenerateMergePatch(cJSON * const from, cJSON * const to)
__CPROVER_requires(1)
__CPROVER_ensures(UW_FWD2(from, to, 0)) /*@C18*/
__CPROVER_assigns(g_uw);
CJSON_PUBLIC(cJSON *) cJSONUtils_GenerateMergePatchCaseSensitive(cJSON * const from, cJSON * const to)
__CPROVER_requires(1)
__CPROVER_ensures(UW_FWD2(from, to, 1)) /*@C18*/
__CPROVER_assigns(g_uw);
CJSON_PUBLIC(void) cJSONUtils_SortObject(cJSON * const object)
__CPROVER_requires(1)
__CPROVER_ensures(g_uw.calls == __CPROVER_old(g_uw.calls) + 1 && g_uw.a == object && g_uw.cs == 0) /*@C19*/
__CPROVER_assigns(g_uw);
CJSON_PUBLIC(void) cJSONUtils_SortObjectCaseSensitive(cJSON * const object)
__CPROVER_requires(1)
__CPROVER_ensures(g_uw.calls == __CPROVER_old(g_uw.calls) + 1 && g_uw.a == object && g_uw.cs == 1) /*@C19*/
__CPROVER_assigns(g_uw);

/* ------------------------------------------------------------------ cJSONUtils_ApplyPatches[CaseSensitive]  (S: patch array of <= 2 operations)
 * apply_patch is replaced by a view that records each call in order and answers arbitrarily.  The wrapper must refuse a non-array
 * with 1 and no call; otherwise apply the operations in document order to the same object with the promised case mode, stop at
 * the first non-zero status and return it, or return 0 after the last one. */
struct vf_ap_log { const void *obj[3]; const void *patch[3]; cJSON_bool cs[3]; int ret[3]; size_t calls; } g_ap;
static int vf_ap_log_ens(const void *o, const void *p, cJSON_bool cs, int r)
{ if (g_ap.calls < 3) { g_ap.obj[g_ap.calls] = o; g_ap.patch[g_ap.calls] = p; g_ap.cs[g_ap.calls] = cs; g_ap.ret[g_ap.calls] = r; } g_ap.calls++; return 1; }
static int apply_patch(cJSON *object, const cJSON *patch, const cJSON_bool case_sensitive)
__CPROVER_requires(patch != NULL)
__CPROVER_ensures(vf_ap_log_ens(object, patch, case_sensitive, RET))
__CPROVER_assigns();

/* n = number of operations in the array (0..2), set by the harness in g_ap_n; p0/p1 the operation nodes */
size_t g_ap_n; const cJSON *g_ap_p0, *g_ap_p1;
#define AP_PRE(patches) (patches == NULL || (__CPROVER_is_fresh(patches, sizeof(cJSON)) && g_ap_n <= 2 && g_ap.calls == 0 && \
    (g_ap_n == 0 ? patches->child == NULL : (__CPROVER_is_fresh(patches->child, sizeof(cJSON)) && \
       (g_ap_n == 1 ? patches->child->next == NULL : (__CPROVER_is_fresh(patches->child->next, sizeof(cJSON)) && patches->child->next->next == NULL))))))
#define AP_ISARR(patches) (patches != NULL && (patches->type & 0xFF) == cJSON_Array)
#define AP_POST(object, patches, cs_) \
  (!AP_ISARR(patches) ? (RET == 1 && g_ap.calls == __CPROVER_old(g_ap.calls)) : \
   g_ap_n == 0 ? (RET == 0 && g_ap.calls == 0) : \
   (g_ap.calls >= 1 && g_ap.obj[0] == object && g_ap.patch[0] == patches->child && g_ap.cs[0] == (cs_) && \
    (g_ap.ret[0] != 0 ? (RET == g_ap.ret[0] && g_ap.calls == 1) : \
     g_ap_n == 1 ? (RET == 0 && g_ap.calls == 1) : \
     (g_ap.calls == 2 && g_ap.obj[1] == object && g_ap.patch[1] == patches->child->next && g_ap.cs[1] == (cs_) && RET == g_ap.ret[1]))))

CJSON_PUBLIC(int) cJSONUtils_ApplyPatches(cJSON * const object, const cJSON * const patches)
__CPROVER_requires(AP_PRE(patches))
__CPROVER_ensures(AP_POST(object, patches, 0)) /*@C16*/
__CPROVER_assigns(g_ap);
CJSON_PUBLIC(int) cJSONUtils_ApplyPatchesCaseSensitive(cJSON * const object, const cJSON * const patches)
__CPROVER_requires(AP_PRE(patches))
__CPROVER_ensures(AP_POST(object, patches, 1)) /*@C16*/
__CPROVER_assigns(g_ap);

/* ------------------------------------------------------------------ cJSONUtils_GeneratePatches[CaseSensitive]
 * Only the frame (C20) is claimed for these two; the forwarding clause is tagged C17, which is not claimed (DESIGN 3), so a failure
 * of it is recorded in the evidence of no check.  cJSON_CreateArray is bodiless in this translation unit: NULL or a fresh node. */
struct vf_cp_log { const void *patches, *from, *to; cJSON_bool cs; size_t calls; } g_cp;
cJSON *g_ca_ret;
static void create_patches(cJSON * const patches, const unsigned char * const path, cJSON * const from, cJSON * const to, const cJSON_bool case_sensitive)
__CPROVER_requires(path != NULL && path[0] == 0)
__CPROVER_ensures(g_cp.patches == patches && g_cp.from == from && g_cp.to == to && g_cp.cs == case_sensitive && g_cp.calls == __CPROVER_old(g_cp.calls) + 1)
__CPROVER_assigns(g_cp);
CJSON_PUBLIC(cJSON *) cJSON_CreateArray(void)
__CPROVER_requires(1)
__CPROVER_ensures(RET == NULL || __CPROVER_is_fresh(RET, sizeof(cJSON)))
__CPROVER_ensures(g_ca_ret == RET)
__CPROVER_assigns(g_ca_ret);
#define GP_POST(cs_) ((from == NULL || to == NULL) ? (RET == NULL && g_cp.calls == __CPROVER_old(g_cp.calls)) : \
    (g_cp.calls == __CPROVER_old(g_cp.calls) + 1 && RET == g_ca_ret && g_cp.patches == RET && g_cp.from == from && g_cp.to == to && g_cp.cs == (cs_)))
CJSON_PUBLIC(cJSON *) cJSONUtils_GeneratePatches(cJSON * const from, cJSON * const to)
__CPROVER_requires(1)
__CPROVER_ensures(GP_POST(0)) /*@C17*/
__CPROVER_assigns(g_cp, g_ca_ret);
CJSON_PUBLIC(cJSON *) cJSONUtils_GeneratePatchesCaseSensitive(cJSON * const from, cJSON * const to)
__CPROVER_requires(1)
__CPROVER_ensures(GP_POST(1)) /*@C17*/
__CPROVER_assigns(g_cp, g_ca_ret);

/* ------------------------------------------------------------------ get_object_item (cJSON_Utils.c): the case-mode dispatcher behind pointer resolution,
 * detach_path and the patch member lookups.  Exactly one public lookup, the case-sensitive one iff case_sensitive, with the caller's arguments. */
struct vf_ugoi_log { const void *obj, *name; int which; const void *ret; size_t calls; } g_ugoi;
CJSON_PUBLIC(cJSON *) cJSON_GetObjectItem(const cJSON * const object, const char * const string)
__CPROVER_requires(1)
__CPROVER_ensures(g_ugoi.obj == object && g_ugoi.name == string && g_ugoi.which == 0 && g_ugoi.ret == RET && g_ugoi.calls == __CPROVER_old(g_ugoi.calls) + 1)
__CPROVER_assigns(g_ugoi);
CJSON_PUBLIC(cJSON *) cJSON_GetObjectItemCaseSensitive(const cJSON * const object, const char * const string)
__CPROVER_requires(1)
__CPROVER_ensures(g_ugoi.obj == object && g_ugoi.name == string && g_ugoi.which == 1 && g_ugoi.ret == RET && g_ugoi.calls == __CPROVER_old(g_ugoi.calls) + 1)
__CPROVER_assigns(g_ugoi);
static cJSON *get_object_item(const cJSON * const object, const char* name, const cJSON_bool case_sensitive)
__CPROVER_requires(1)
__CPROVER_ensures(g_ugoi.calls == __CPROVER_old(g_ugoi.calls) + 1 && g_ugoi.obj == object && g_ugoi.name == name && g_ugoi.which == (case_sensitive ? 1 : 0) && RET == g_ugoi.ret) /*@C15 C16*/
__CPROVER_assigns(g_ugoi);
#endif /* VF_UTILS_WRAPPERS */
#endif
