/* Prologue of every proof unit on cJSON_Utils.c (its own translation unit: it cannot share one with cJSON.c, both define static
 * helpers of the same name).  The public cJSON functions it calls are bodiless here and are replaced by contracts or stubs per unit. */
#ifndef VF_UTILS_TU_H
#define VF_UTILS_TU_H
#include "models.h"
#include "preds.h"
#define malloc vf_libc_malloc
#define free vf_libc_free
#define realloc vf_libc_realloc
#include "cJSON_Utils.c"
#undef malloc
#undef free
#undef realloc
#include "contracts_utils.h"
#endif
