/* ================================================================== containers: parse_array / parse_object (skeleton units, children <= K=3)
 * Every callee including the recursive parse_value is replaced by a contract, so element values are arbitrary (any size, any depth);
 * only the element loop is unwound.  Ghost slots g_n[0..3] designate the nodes cJSON_New_Item handed out, g_pvs/g_pve/g_pvok log the
 * parse_value calls (start offset, end offset, verdict). */
#ifdef VF_CONTAINER_VIEWS
#define KMAX 8
/* logs are arrays of records so that a callee view names exactly ONE element as its assigns target (entries written by earlier
 * calls stay untouched, which the contracts below rely on) */
struct vf_pvlog { size_t s, e; cJSON_bool ok; cJSON *item; size_t depth; char *str; int kind; };
struct vf_pvlog g_pvl[KMAX]; size_t g_pv_calls;
cJSON *g_nodes[KMAX]; size_t g_nit_calls;
#define g_n0 g_nodes[0]
#define g_n1 g_nodes[1]
#define g_n2 g_nodes[2]
#define g_n3 g_nodes[3]
#define g_pvs_(i) g_pvl[i].s
#define g_pve_(i) g_pvl[i].e
#define g_pvok_(i) g_pvl[i].ok
#define g_pvitem_(i) g_pvl[i].item
#define g_pvdepth_(i) g_pvl[i].depth
#define g_pvstr_(i) g_pvl[i].str
#define g_pvkind_(i) g_pvl[i].kind
#define GHOST_CONT __CPROVER_object_whole(g_pvl), g_pv_calls, __CPROVER_object_whole(g_nodes), g_nit_calls
#define SLOT_FRESH(slot) (__CPROVER_is_fresh(slot, sizeof(cJSON)) && __CPROVER_pointer_in_range_dfcc(slot, RET, slot) && RET == slot && NODE_ZERO(slot))
static cJSON *cJSON_New_Item_cv(const internal_hooks * const hooks)
__CPROVER_requires(g_nit_calls < KMAX)
__CPROVER_ensures(RET == NULL || SLOT_FRESH(g_nodes[__CPROVER_old(g_nit_calls)]))
__CPROVER_ensures(g_nit_calls == __CPROVER_old(g_nit_calls) + (RET != NULL ? 1 : 0))
__CPROVER_ensures((RET == NULL ? LIVE_SAME : LIVE_IS(RET)) && g_hook_frees == __CPROVER_old(g_hook_frees) && C14_POST(*hooks))
__CPROVER_assigns(g_nodes[g_nit_calls], g_nit_calls, GHOST_ALLOC);

/* buffer_skip_whitespace as a callee (strict: non-NULL buffer with content), the clauses its own unit proves */
static parse_buffer *buffer_skip_whitespace_cv(parse_buffer * const buffer)
__CPROVER_requires(buffer != NULL && __CPROVER_rw_ok(buffer, sizeof(parse_buffer)) && buffer->content != NULL && buffer->offset <= buffer->length)
__CPROVER_ensures(__CPROVER_pointer_in_range_dfcc(buffer, RET, buffer) && RET == buffer && buffer->offset >= __CPROVER_old(buffer->offset) && buffer->offset <= buffer->length)
__CPROVER_ensures(__CPROVER_old(buffer->offset) < buffer->length ==> (buffer->offset < buffer->length && (buffer->content[buffer->offset] > 32 || buffer->offset == buffer->length - 1)))
__CPROVER_ensures(__CPROVER_old(buffer->offset) >= buffer->length ==> buffer->offset == __CPROVER_old(buffer->offset))
__CPROVER_ensures((g_k >= __CPROVER_old(buffer->offset) && g_k < buffer->offset) ==> buffer->content[g_k] <= 32)
__CPROVER_assigns(buffer->offset);

/* parse_value / parse_string as callees of a container: the usual parse contract plus the call log */
#define PV_LOG_CV(name, kindv, extra_ok, extra_pre) \
static cJSON_bool name(cJSON * const item, parse_buffer * const input_buffer) \
__CPROVER_requires(__CPROVER_is_fresh(item, sizeof(cJSON)) && PB_FRESH(input_buffer) && g_pv_calls < KMAX && (extra_pre)) \
__CPROVER_ensures(PB_SAME(input_buffer) && (RET ? input_buffer->depth == __CPROVER_old(input_buffer->depth) : input_buffer->depth >= __CPROVER_old(input_buffer->depth))) \
__CPROVER_ensures(RET ==> (input_buffer->offset > __CPROVER_old(input_buffer->offset) && (extra_ok))) \
__CPROVER_ensures(!RET ==> (item->type == __CPROVER_old(item->type) && item->valuestring == __CPROVER_old(item->valuestring) && item->child == __CPROVER_old(item->child))) \
__CPROVER_ensures(g_pv_calls == __CPROVER_old(g_pv_calls) + 1 && g_pvl[__CPROVER_old(g_pv_calls)].s == __CPROVER_old(input_buffer->offset) && g_pvl[__CPROVER_old(g_pv_calls)].e == input_buffer->offset && \
    g_pvl[__CPROVER_old(g_pv_calls)].ok == RET && g_pvl[__CPROVER_old(g_pv_calls)].item == item && g_pvl[__CPROVER_old(g_pv_calls)].depth == __CPROVER_old(input_buffer->depth) && \
    g_pvl[__CPROVER_old(g_pv_calls)].str == item->valuestring && g_pvl[__CPROVER_old(g_pv_calls)].kind == (kindv) && (RET == 0 || RET == 1)) \
__CPROVER_ensures(LIVE_SAME && g_hook_frees == __CPROVER_old(g_hook_frees) && C14_POST(input_buffer->hooks)) \
__CPROVER_assigns(ITEM_VALUE_FIELDS(item), input_buffer->offset, input_buffer->depth, GHOST_ALLOC, GHOST_STRTOD, g_pvl[g_pv_calls], g_pv_calls);
/* parse_value checks every read itself; parse_string reads the byte at the offset unchecked, so its caller must guarantee one (C01) */
PV_LOG_CV(parse_value_cv, D_VALUE, 1, 1)
PV_LOG_CV(parse_string_cv, D_STRING, (item->type == cJSON_String && __CPROVER_is_fresh(item->valuestring, 1)), input_buffer->offset < input_buffer->length)

/* cJSON_Delete as a callee of a failing container parse.  Its precondition demands that the chain handed over starts at the first node
 * and links EVERY node allocated so far (so a node that was allocated but not linked is reported, not silently leaked);
 * then all of them are released (cJSON_Delete's own unit) and the tracked block, if it was one of them, is gone. */
#define LAST_NODE (g_nit_calls == 1 ? g_n0 : g_nit_calls == 2 ? g_n1 : g_nit_calls == 3 ? g_n2 : g_n3)
CJSON_PUBLIC(void) cJSON_Delete_chain_cv(cJSON *item)
__CPROVER_requires(g_nit_calls >= 1 && g_nit_calls <= 4 && item == g_n0)
__CPROVER_requires((g_nit_calls < 2 || g_n0->next == g_n1) && (g_nit_calls < 3 || g_n1->next == g_n2) && (g_nit_calls < 4 || g_n2->next == g_n3) && LAST_NODE->next == NULL)
__CPROVER_ensures(g_live == ((__CPROVER_old(g_live) != NULL && (__CPROVER_old(g_live) == (void*)g_n0 || (g_nit_calls >= 2 && __CPROVER_old(g_live) == (void*)g_n1) ||
    (g_nit_calls >= 3 && __CPROVER_old(g_live) == (void*)g_n2) || (g_nit_calls >= 4 && __CPROVER_old(g_live) == (void*)g_n3))) ? NULL : __CPROVER_old(g_live)))
__CPROVER_ensures(g_del_arg == item && g_del_calls == __CPROVER_old(g_del_calls) + 1 && g_hook_allocs == __CPROVER_old(g_hook_allocs) && C14_POST(global_hooks))
__CPROVER_assigns(GHOST_ALLOC, GHOST_DEL);
#endif

#ifdef VF_CONTAINER_VIEWS
#define AT0(b) ((b)->content[__CPROVER_old((b)->offset)])
#define NODES_LINKED_1 (g_n0->next == NULL && g_n0->prev == g_n0)
#define NODES_LINKED_2 (g_n0->next == g_n1 && g_n1->prev == g_n0 && g_n1->next == NULL && g_n0->prev == g_n1)
#define NODES_LINKED_3 (g_n0->next == g_n1 && g_n1->prev == g_n0 && g_n1->next == g_n2 && g_n2->prev == g_n1 && g_n2->next == NULL && g_n0->prev == g_n2)
/* ------------------------------------------------------------------ parse_array */
static cJSON_bool parse_array(cJSON * const item, parse_buffer * const input_buffer)
__CPROVER_requires(__CPROVER_is_fresh(item, sizeof(cJSON)) && PB_FRESH(input_buffer) && input_buffer->offset < input_buffer->length)
__CPROVER_requires(g_nit_calls == 0 && g_pv_calls == 0 && g_del_calls == 0 && HOOKS_OK(global_hooks) && g_live == NULL && HOOKS_EQ(input_buffer->hooks, global_hooks))
PARSE_COMMON(item, input_buffer)
/* nesting limit: refused before anything is allocated or parsed; below the limit every recursive call runs one level deeper (stack bound) */
__CPROVER_ensures(__CPROVER_old(input_buffer->depth) >= CJSON_NESTING_LIMIT ==> (!RET && g_nit_calls == 0 && g_pv_calls == 0 && input_buffer->offset == __CPROVER_old(input_buffer->offset))) /*@C01 C03*/
__CPROVER_ensures((g_pv_calls >= 1 ==> g_pvl[0].depth == __CPROVER_old(input_buffer->depth) + 1) && (g_pv_calls >= 2 ==> g_pvl[1].depth == __CPROVER_old(input_buffer->depth) + 1) && (g_pv_calls >= 3 ==> g_pvl[2].depth == __CPROVER_old(input_buffer->depth) + 1)) /*@C01*/
/* accepted text starts with '[' and ends with ']' ; the parse end is just behind the ']' */
__CPROVER_ensures(RET ==> (AT0(input_buffer) == '[' && input_buffer->content[input_buffer->offset - 1] == ']' && item->type == cJSON_Array)) /*@C02 C03*/
/* one node and one value parse per element, in input order, each on its own node; any element failure fails the array */
__CPROVER_ensures(RET ==> (g_pv_calls == g_nit_calls && (g_pv_calls < 1 || (g_pvl[0].ok && g_pvl[0].item == g_n0)) && (g_pv_calls < 2 || (g_pvl[1].ok && g_pvl[1].item == g_n1)) && (g_pv_calls < 3 || (g_pvl[2].ok && g_pvl[2].item == g_n2)))) /*@C02 C03*/
__CPROVER_ensures(((g_pv_calls >= 1 && !g_pvl[0].ok) || (g_pv_calls >= 2 && !g_pvl[1].ok) || (g_pv_calls >= 3 && !g_pvl[2].ok)) ==> !RET) /*@C03*/
/* children are linked in input order into a well-formed sibling chain (C06 shape), nothing else hangs on the item */
__CPROVER_ensures((RET && g_pv_calls == 0) ==> item->child == NULL) /*@C02*/
__CPROVER_ensures((RET && g_pv_calls == 1) ==> (item->child == g_n0 && NODES_LINKED_1)) /*@C02 C01*/
__CPROVER_ensures((RET && g_pv_calls == 2) ==> (item->child == g_n0 && NODES_LINKED_2)) /*@C02 C01*/
__CPROVER_ensures((RET && g_pv_calls == 3) ==> (item->child == g_n0 && NODES_LINKED_3)) /*@C02 C01*/
/* element i starts right after '[' or ',' plus whitespace; between element i and i+1 there is only whitespace and a comma; behind the last only whitespace */
__CPROVER_ensures((RET && g_pv_calls >= 1 && g_k > __CPROVER_old(input_buffer->offset) && g_k < g_pvl[0].s) ==> input_buffer->content[g_k] <= 32) /*@C02 C03*/
__CPROVER_ensures((RET && g_pv_calls >= 2 && g_k >= g_pvl[0].e && g_k < g_pvl[1].s) ==> (input_buffer->content[g_k] <= 32 || input_buffer->content[g_k] == ',')) /*@C02 C03*/
__CPROVER_ensures((RET && g_pv_calls >= 3 && g_k >= g_pvl[1].e && g_k < g_pvl[2].s) ==> (input_buffer->content[g_k] <= 32 || input_buffer->content[g_k] == ',')) /*@C02 C03*/
__CPROVER_ensures((RET && g_pv_calls >= 2) ==> g_pvl[1].s > g_pvl[0].e) /*@C03*/
__CPROVER_ensures((RET && g_pv_calls >= 1 && g_pv_calls <= 3 && g_k >= g_pvl[g_pv_calls - 1].e && g_k < input_buffer->offset - 1) ==> input_buffer->content[g_k] <= 32) /*@C02 C03*/
__CPROVER_ensures((RET && g_pv_calls == 0 && g_k > __CPROVER_old(input_buffer->offset) && g_k < input_buffer->offset - 1) ==> input_buffer->content[g_k] <= 32) /*@C02 C03*/
/* failure: the partial chain is deleted exactly once (never on success) */
__CPROVER_ensures(RET ==> g_del_calls == 0) /*@C07*/
__CPROVER_ensures((!RET && g_nit_calls >= 1) ==> (g_del_calls == 1 && g_del_arg == g_n0)) /*@C03 C07 C08*/
__CPROVER_ensures((!RET && g_nit_calls == 0) ==> g_del_calls == 0) /*@C07*/
__CPROVER_ensures(RET ==> (g_live == NULL || g_live == (void*)g_n0 || g_live == (void*)g_n1 || g_live == (void*)g_n2)) /*@C08*/
__CPROVER_assigns(PARSE_ASSIGNS(item, input_buffer), GHOST_CONT, GHOST_DEL);

/* ------------------------------------------------------------------ parse_object (members <= 2 in the quick tier: two callee calls per member) */
#define MEMBER_OK(j, node) (g_pvl[2*(j)].kind == D_STRING && g_pvl[2*(j)].ok && g_pvl[2*(j)].item == (node) && g_pvl[2*(j)+1].kind == D_VALUE && g_pvl[2*(j)+1].ok && g_pvl[2*(j)+1].item == (node) && \
    (node)->string == g_pvl[2*(j)].str && (node)->string != NULL)
static cJSON_bool parse_object(cJSON * const item, parse_buffer * const input_buffer)
__CPROVER_requires(__CPROVER_is_fresh(item, sizeof(cJSON)) && PB_FRESH(input_buffer))
__CPROVER_requires(g_nit_calls == 0 && g_pv_calls == 0 && g_del_calls == 0 && HOOKS_OK(global_hooks) && g_live == NULL && HOOKS_EQ(input_buffer->hooks, global_hooks))
PARSE_COMMON(item, input_buffer)
__CPROVER_ensures(__CPROVER_old(input_buffer->depth) >= CJSON_NESTING_LIMIT ==> (!RET && g_nit_calls == 0 && g_pv_calls == 0 && input_buffer->offset == __CPROVER_old(input_buffer->offset))) /*@C01 C03*/
__CPROVER_ensures((g_pv_calls >= 2 ==> g_pvl[1].depth == __CPROVER_old(input_buffer->depth) + 1) && (g_pv_calls >= 4 ==> g_pvl[3].depth == __CPROVER_old(input_buffer->depth) + 1)) /*@C01*/
__CPROVER_ensures(RET ==> (__CPROVER_old(input_buffer->offset) < input_buffer->length && AT0(input_buffer) == '{' && input_buffer->content[input_buffer->offset - 1] == '}' && item->type == cJSON_Object)) /*@C02 C03*/
/* per member: the key is parsed as a string into the node and becomes its (owned) key, then the value is parsed into the same node; any failure fails the object */
__CPROVER_ensures(RET ==> (g_pv_calls == 2 * g_nit_calls && (g_nit_calls < 1 || MEMBER_OK(0, g_n0)) && (g_nit_calls < 2 || MEMBER_OK(1, g_n1)) && (g_nit_calls < 3 || MEMBER_OK(2, g_n2)))) /*@C02 C03*/
__CPROVER_ensures(((g_pv_calls >= 1 && !g_pvl[0].ok) || (g_pv_calls >= 2 && !g_pvl[1].ok) || (g_pv_calls >= 3 && !g_pvl[2].ok) || (g_pv_calls >= 4 && !g_pvl[3].ok)) ==> !RET) /*@C03*/
__CPROVER_ensures((RET && g_nit_calls == 0) ==> item->child == NULL) /*@C02*/
__CPROVER_ensures((RET && g_nit_calls == 1) ==> (item->child == g_n0 && NODES_LINKED_1)) /*@C02 C01*/
__CPROVER_ensures((RET && g_nit_calls == 2) ==> (item->child == g_n0 && NODES_LINKED_2)) /*@C02 C01*/
__CPROVER_ensures((RET && g_nit_calls == 3) ==> (item->child == g_n0 && NODES_LINKED_3)) /*@C02 C01*/
/* key and value are separated by whitespace and a colon; members by whitespace and a comma; only whitespace before the closing brace */
__CPROVER_ensures((RET && g_nit_calls >= 1 && g_k > __CPROVER_old(input_buffer->offset) && g_k < g_pvl[0].s) ==> input_buffer->content[g_k] <= 32) /*@C02 C03*/
__CPROVER_ensures((RET && g_nit_calls >= 1 && g_k >= g_pvl[0].e && g_k < g_pvl[1].s) ==> (input_buffer->content[g_k] <= 32 || input_buffer->content[g_k] == ':')) /*@C02 C03*/
__CPROVER_ensures((RET && g_nit_calls >= 1) ==> g_pvl[1].s > g_pvl[0].e) /*@C03*/
__CPROVER_ensures((RET && g_nit_calls >= 2 && g_k >= g_pvl[1].e && g_k < g_pvl[2].s) ==> (input_buffer->content[g_k] <= 32 || input_buffer->content[g_k] == ',')) /*@C02 C03*/
__CPROVER_ensures((RET && g_nit_calls >= 2) ==> g_pvl[2].s > g_pvl[1].e) /*@C03*/
__CPROVER_ensures((RET && g_nit_calls >= 2 && g_k >= g_pvl[2].e && g_k < g_pvl[3].s) ==> (input_buffer->content[g_k] <= 32 || input_buffer->content[g_k] == ':')) /*@C02 C03*/
__CPROVER_ensures((RET && g_nit_calls >= 1 && g_nit_calls <= 3 && g_k >= g_pvl[2 * g_nit_calls - 1].e && g_k < input_buffer->offset - 1) ==> input_buffer->content[g_k] <= 32) /*@C02 C03*/
__CPROVER_ensures((RET && g_nit_calls == 0 && g_k > __CPROVER_old(input_buffer->offset) && g_k < input_buffer->offset - 1) ==> input_buffer->content[g_k] <= 32) /*@C02 C03*/
__CPROVER_ensures(RET ==> g_del_calls == 0) /*@C07*/
__CPROVER_ensures((!RET && g_nit_calls >= 1) ==> (g_del_calls == 1 && g_del_arg == g_n0)) /*@C03 C07 C08*/
__CPROVER_ensures((!RET && g_nit_calls == 0) ==> g_del_calls == 0) /*@C07*/
__CPROVER_ensures(RET ==> (g_live == NULL || g_live == (void*)g_n0 || g_live == (void*)g_n1 || g_live == (void*)g_n2)) /*@C08*/
__CPROVER_assigns(PARSE_ASSIGNS(item, input_buffer), GHOST_CONT, GHOST_DEL);
#endif

/* ================================================================== cJSON_Delete (skeleton, chain <= 2 nodes; C07)
 * --enforce-contract-rec: the recursive call on a child is cut by the contract itself.  Children are opaque tokens (arbitrary non-NULL
 * pointers that are never dereferenced): for a token argument the contract only logs the call - that is the induction hypothesis for an
 * arbitrary subtree; for a concrete chain it states what happens to every node. */
#ifdef VF_ENF_cJSON_Delete
cJSON *g_tok1, *g_tok2;
cJSON *g_dlog[4]; size_t g_dlogn;
#define IS_TOK(p) ((p) == g_tok1 || (p) == g_tok2)
#define DNODE_OK(n) (__CPROVER_is_fresh(n, sizeof(cJSON)) && ((n)->valuestring == NULL || __CPROVER_is_fresh((n)->valuestring, 1)) && ((n)->string == NULL || __CPROVER_is_fresh((n)->string, 1)) && ((n)->child == NULL || IS_TOK((n)->child)))
#define OWNS_VS(t) (!((t) & cJSON_IsReference))
#define OWNS_KEY(t) (!((t) & cJSON_StringIsConst))
#define RECURSES(n) (OWNS_VS(__CPROVER_old((n)->type)) && __CPROVER_old((n)->child) != NULL)
CJSON_PUBLIC(void) cJSON_Delete(cJSON *item)
__CPROVER_requires(global_hooks.deallocate == vf_free && g_tok1 != NULL && g_tok2 != NULL && g_dlogn < 3)
__CPROVER_requires(IS_TOK(item) || item == NULL || (g_dlogn == 0 && DNODE_OK(item) && (item->next == NULL || (DNODE_OK(item->next) && item->next->next == NULL))))
/* abstract subtree: only logged */
__CPROVER_ensures(IS_TOK(item) ==> (g_dlogn == __CPROVER_old(g_dlogn) + 1 && g_dlog[__CPROVER_old(g_dlogn)] == item))
__CPROVER_ensures(item == NULL ==> g_dlogn == __CPROVER_old(g_dlogn)) /*@C07*/
/* every node of the chain is released; its value string exactly when the node is not a reference; its key exactly when the key is not constant */
__CPROVER_ensures((!IS_TOK(item) && item != NULL) ==> __CPROVER_was_freed(item)) /*@C07*/
__CPROVER_ensures((!IS_TOK(item) && item != NULL && __CPROVER_old(item->valuestring) != NULL) ==> (__CPROVER_was_freed(__CPROVER_old(item->valuestring)) == OWNS_VS(__CPROVER_old(item->type)))) /*@C07*/
__CPROVER_ensures((!IS_TOK(item) && item != NULL && __CPROVER_old(item->string) != NULL) ==> (__CPROVER_was_freed(__CPROVER_old(item->string)) == OWNS_KEY(__CPROVER_old(item->type)))) /*@C07*/
/* the children are deleted recursively exactly when the node owns them (never through a reference), once, in chain order */
__CPROVER_ensures((!IS_TOK(item) && item != NULL && __CPROVER_old(item->next) == NULL) ==> (g_dlogn == (RECURSES(item) ? 1 : 0) && (!RECURSES(item) || g_dlog[0] == __CPROVER_old(item->child)))) /*@C07*/
__CPROVER_assigns(g_dlogn, __CPROVER_object_whole(g_dlog), GHOST_ALLOC)
__CPROVER_frees(!IS_TOK(item) && item != NULL: item, item->valuestring, item->string; !IS_TOK(item) && item != NULL && item->next != NULL: item->next, item->next->valuestring, item->next->string);
#endif
