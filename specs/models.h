/* Trusted base (DESIGN.md 1.3): ghost state and models of the environment.
 * Everything in this file is an ASSUMPTION about libc / the allocator, listed in every evidence file.
 * Included BEFORE the library source, while `malloc/free/realloc` still name CBMC's built-ins. */
#ifndef VF_MODELS_H
#define VF_MODELS_H
#include <stddef.h>
#include <stdlib.h>
#include <string.h>
#include <stdio.h>
#include <math.h>
#include <limits.h>
#include <ctype.h>
#include <float.h>
#include <locale.h>

#define VF_MAXLEN 0x7fffffffffffUL      /* CBMC's maximum object size with 16 object bits */

/* ---------------------------------------------------------------- ghost state */
/* ghost variables are grouped in structs so that an assigns clause names ONE target per group (the dfcc inclusion check is quadratic in the number of targets) */
struct vf_alloc_ghost {
    void  *live;          /* one arbitrarily chosen block allocated through a model allocator and not yet released */
    size_t libc_calls;    /* number of calls to the *libc* allocator names (malloc/free/realloc as seen by library code) */
    size_t hook_allocs;   /* successful allocations through vf_alloc / vf_realloc */
    size_t hook_frees;    /* non-NULL releases through vf_free / vf_realloc */
} g_al;
#define g_live g_al.live
#define g_libc_calls g_al.libc_calls
#define g_hook_allocs g_al.hook_allocs
#define g_hook_frees g_al.hook_frees
size_t g_k;             /* an arbitrary index fixed by the harness: pointwise "for all k" postconditions */
size_t g_k2;            /* a second arbitrary index (copy models are exact at g_k and g_k2) */
#define GHOST_ALLOC g_al

/* vacuity guard: a cover goal is an assertion that must FAIL (the condition is reachable) */
#define VF_COVER(c) __CPROVER_assert(!(c), "VF_COVER " #c)

/* every harness starts with no tracked block (the ghost is cleared at the start of the top-level call) */
#define VF_INIT() do { g_live = NULL; } while (0)

int nondet_int(void);
unsigned nondet_uint_(void);
_Bool nondet_bool(void);
size_t nondet_size_t(void);
double nondet_double(void);
unsigned char nondet_uchar(void);

/* ---------------------------------------------------------------- allocator models
 * vf_alloc: a fresh block of exactly n bytes, or NULL (any request may be refused).
 * VF_ALLOC_CONCRETE<=k: sizes are case-split into constants (needed where a loop writes bytes into the
 * block, DESIGN 6); a request above the bound fails an assertion (never silently truncated). */
#ifndef VF_NOFAIL
#define VF_MAY_FAIL (nondet_bool())
#else
#define VF_MAY_FAIL 0
#endif

static void *vf_block(size_t n)
{
#ifdef VF_ALLOC_CONCRETE
    if (n == 64) { return malloc(64); }      /* a cJSON node */
    __CPROVER_assert(n <= VF_ALLOC_CONCRETE, "allocator model: request within the concrete-size bound");
    __CPROVER_assume(n <= VF_ALLOC_CONCRETE);
    for (size_t k = 0; k <= VF_ALLOC_CONCRETE; k++) { if (k == n) { return malloc(k); } }
    return NULL;
#else
    return malloc(n);
#endif
}

void *vf_alloc(size_t n)
{
    void *p;
    if (VF_MAY_FAIL) { return NULL; }
    p = vf_block(n);
    __CPROVER_assume(p != NULL);
    __CPROVER_assume(g_hook_allocs < (size_t)-1); g_hook_allocs++;   /* ghost counter: cannot wrap in any real execution */
    if (g_live == NULL && nondet_bool()) { g_live = p; }   /* at most one tracked block; the choice is arbitrary */
    return p;
}

void vf_free(void *p)
{
    if (p != NULL) { __CPROVER_assume(g_hook_frees < (size_t)-1); g_hook_frees++; if (p == g_live) { g_live = NULL; } }
    free(p);
}

/* realloc: NULL (old block untouched) or a fresh block whose first min(old,new) bytes are the old
 * ones at the arbitrary index g_k (pointwise); the old block is released. */
void *vf_realloc(void *p, size_t n)
{
    unsigned char *q;
    if (VF_MAY_FAIL) { return NULL; }
    q = vf_block(n);
    __CPROVER_assume(q != NULL);
    __CPROVER_assume(g_hook_allocs < (size_t)-1); g_hook_allocs++;
    if (p != NULL)
    {
        size_t old = __CPROVER_OBJECT_SIZE(p);
        __CPROVER_assert(__CPROVER_POINTER_OFFSET(p) == 0, "realloc: pointer is the start of a block");
#ifndef VF_MEMCPY_NOCONTENT
        if (g_k < old && g_k < n) { q[g_k] = ((unsigned char*)p)[g_k]; }
        if (g_k2 < old && g_k2 < n) { q[g_k2] = ((unsigned char*)p)[g_k2]; }
#endif
        __CPROVER_assume(g_hook_frees < (size_t)-1); g_hook_frees++;
        if (p == g_live) { g_live = NULL; }
        free(p);
    }
    if (g_live == NULL && nondet_bool()) { g_live = q; }
    return q;
}

/* the libc allocator as named by library code (cJSON.c is compiled with malloc->vf_libc_malloc etc.) */
#define VF_LIBC_TICK() do { __CPROVER_assume(g_libc_calls < (size_t)-1); g_libc_calls++; } while (0)
void *vf_libc_malloc(size_t n) { VF_LIBC_TICK(); return vf_alloc(n); }
void vf_libc_free(void *p) { VF_LIBC_TICK(); vf_free(p); }
void *vf_libc_realloc(void *p, size_t n) { VF_LIBC_TICK(); return vf_realloc(p, n); }

/* addresses taken in ordinary code so that goto-instrument resolves the hook pointers to them */
void *(*vf_fp_a1)(size_t) = vf_alloc;          void (*vf_fp_f1)(void*) = vf_free;
void *(*vf_fp_r1)(void*, size_t) = vf_realloc;
void *(*vf_fp_a2)(size_t) = vf_libc_malloc;    void (*vf_fp_f2)(void*) = vf_libc_free;
void *(*vf_fp_r2)(void*, size_t) = vf_libc_realloc;

/* ---------------------------------------------------------------- string.h models (C11 7.24)
 * Strings live in objects whose LAST byte is NUL (harness precondition STR(s,n)); the models assert it,
 * so a call on any other object is reported, never silently accepted. */
#define VF_REM(s) (__CPROVER_OBJECT_SIZE(s) - __CPROVER_POINTER_OFFSET(s))

size_t g_nul_at;   /* ghost hint for units compiled with -DVF_STRLEN_HINT: s[g_nul_at] is known to be NUL */
#ifndef VF_BUILTIN_STRINGS
size_t strlen(const char *s)
{
    size_t i = 0;
#ifdef VF_STRLEN_HINT
    size_t lim = g_nul_at;
    __CPROVER_assert(__CPROVER_r_ok(s, lim + 1), "strlen: readable up to the hinted terminator");
    __CPROVER_assert(s[lim] == 0, "strlen model: a NUL stands at the hinted index");
#else
    size_t lim = VF_REM(s) - 1;
    __CPROVER_assert(__CPROVER_r_ok(s, 1), "strlen: readable");
    __CPROVER_assert(s[lim] == 0, "strlen model: object ends with NUL");
#endif
    while (s[i] != 0)
        __CPROVER_assigns(i)
        __CPROVER_loop_invariant(i <= lim)
        __CPROVER_loop_invariant(g_k >= i || s[g_k] != 0)
        __CPROVER_decreases(lim - i)
    {
        i++;
    }
    return i;
}

int strcmp(const char *a, const char *b)
{
    size_t i = 0;
    __CPROVER_assert(__CPROVER_r_ok(a, 1) && __CPROVER_r_ok(b, 1), "strcmp: readable");
    __CPROVER_assert(a[VF_REM(a) - 1] == 0 && b[VF_REM(b) - 1] == 0, "strcmp model: objects end with NUL");
    while (a[i] != 0 && a[i] == b[i])
        __CPROVER_assigns(i)
        __CPROVER_loop_invariant(i < VF_REM(a) && i < VF_REM(b))
        __CPROVER_loop_invariant(g_k >= i || (a[g_k] == b[g_k] && a[g_k] != 0))
        __CPROVER_decreases(VF_REM(a) - i)
    {
        i++;
    }
    return (int)(unsigned char)a[i] - (int)(unsigned char)b[i];
}
#endif

/* strncmp against a literal of at most 5 bytes (the only use in cJSON.c): written without a loop */
#define VF_SNC(i) if ((i) >= n) { return 0; } \
    if ((unsigned char)a[i] != (unsigned char)b[i]) { return (int)(unsigned char)a[i] - (int)(unsigned char)b[i]; } \
    if (a[i] == 0) { return 0; }
int strncmp(const char *a, const char *b, size_t n)
{
    __CPROVER_assert(n <= 5, "strncmp model: n <= 5");
    VF_SNC(0) VF_SNC(1) VF_SNC(2) VF_SNC(3) VF_SNC(4)
    return 0;
}

/* strcpy of a short literal (the only uses in cJSON.c copy "null", "true", "false", "\"\""): written without a loop */
#ifndef VF_BUILTIN_STRCPY
#define VF_SCP(i) __CPROVER_assert(__CPROVER_r_ok(src + (i), 1) && __CPROVER_w_ok(dst + (i), 1), "strcpy: byte " #i " in bounds"); dst[i] = src[i]; if (src[i] == 0) { return dst; }
char *strcpy(char *dst, const char *src)
{
    VF_SCP(0) VF_SCP(1) VF_SCP(2) VF_SCP(3) VF_SCP(4) VF_SCP(5)
    __CPROVER_assert(0, "strcpy model: source longer than 5 bytes");
    return dst;
}
#endif

#ifndef VF_BUILTIN_MEMCPY
void *memcpy(void *dst, const void *src, size_t n)
{
    __CPROVER_assert(__CPROVER_r_ok(src, n), "memcpy: source readable for n bytes");
    __CPROVER_assert(__CPROVER_w_ok(dst, n), "memcpy: destination writable for n bytes");
    __CPROVER_assert(!__CPROVER_same_object(dst, src) ||
                     __CPROVER_POINTER_OFFSET(dst) + n <= __CPROVER_POINTER_OFFSET(src) ||
                     __CPROVER_POINTER_OFFSET(src) + n <= __CPROVER_POINTER_OFFSET(dst), "memcpy: no overlap");
    if (n > 0)
    {
#ifndef VF_MEMCPY_NOCONTENT
        unsigned char v = (g_k < n) ? ((const unsigned char*)src)[g_k] : 0;
        unsigned char v2 = (g_k2 < n) ? ((const unsigned char*)src)[g_k2] : 0;
#endif
#ifndef VF_MEMCPY_NOHAVOC
        __CPROVER_havoc_slice(dst, n);
#endif
#ifndef VF_MEMCPY_NOCONTENT
        if (g_k < n) { ((unsigned char*)dst)[g_k] = v; }
        if (g_k2 < n) { ((unsigned char*)dst)[g_k2] = v2; }
#endif
    }
    return dst;
}
#endif

/* memset(node, 0, sizeof(cJSON)) (annotate rule R5): defined after the library source, where the node type is known */
void *vf_memset_cjson(void *p, int c, size_t n);

/* memcpy of one cJSON node (annotate rule R5): exact */
void *vf_memcpy_cjson(void *dst, const void *src, size_t n)
{
    struct vf_b64 { unsigned char b[64]; };
    __CPROVER_assert(n == 64, "struct copy model: sizeof(cJSON) == 64");
    __CPROVER_assert(__CPROVER_r_ok(src, 64) && __CPROVER_w_ok(dst, 64), "memcpy: node readable / writable");
    *(struct vf_b64*)dst = *(const struct vf_b64*)src;
    return dst;
}

int tolower(int c)
{
    __CPROVER_assert(c == EOF || (c >= 0 && c <= UCHAR_MAX), "tolower: argument representable as unsigned char");
    return (c >= 'A' && c <= 'Z') ? c + ('a' - 'A') : c;
}

/* ---------------------------------------------------------------- stdlib / stdio / locale models */
/* localeconv: pure; the harness initialises the (model-owned) lconv once via VF_INIT_LOCALE().
 * assumption: the decimal point is a punctuation byte, never a digit, sign, exponent letter or NUL,
 * and the locale is not changed during the call (README). */
static struct lconv vf_lconv;
static char vf_dp[2];
struct lconv *localeconv(void) { return &vf_lconv; }
#define VF_INIT_LOCALE() do { unsigned char dp_ = nondet_uchar(); \
    __CPROVER_assume(dp_ == '.' || dp_ == ',' || dp_ == 0xd9); \
    vf_dp[0] = (char)dp_; vf_dp[1] = 0; vf_lconv.decimal_point = vf_dp; } while (0)
#define VF_DECIMAL_POINT ((unsigned char)vf_dp[0])


/* strtod, C11 7.22.1.3, restricted to the byte set the library can pass ([0-9+-eE] and the decimal point):
 * the subject sequence is  [+-]? ( digits+ (dp digits*)? | dp digits+ ) ( [eE] [+-]? digits+ )?  and *endptr is its end;
 * no conversion <=> endptr == nptr and the result is 0.  The VALUE of a conversion is unconstrained except that it is
 * not NaN: correct rounding is an assumption, not proved.
 * vf_numlen(s, n, dp) is that grammar as a pure function on at most n bytes (also used by the parse_number contract). */
static size_t vf_numlen(const unsigned char *s, size_t n, unsigned char dp)
{
    size_t end = 0, i;
    int st = 0;
    for (i = 0; i < 64; i++)
    {
        unsigned char c;
        _Bool dig, sign, ex, pt;
        if (i >= n) { break; }
        c = s[i];
        dig = (c >= '0' && c <= '9'); sign = (c == '+' || c == '-'); ex = (c == 'e' || c == 'E'); pt = (c == dp);
        if (st == 0)      { if (sign) st = 1; else if (dig) { st = 2; end = i + 1; } else if (pt) st = 3; else break; }
        else if (st == 1) { if (dig) { st = 2; end = i + 1; } else if (pt) st = 3; else break; }
        else if (st == 2) { if (dig) { end = i + 1; } else if (pt) { st = 4; end = i + 1; } else if (ex) st = 5; else break; }
        else if (st == 3) { if (dig) { st = 4; end = i + 1; } else break; }
        else if (st == 4) { if (dig) { end = i + 1; } else if (ex) st = 5; else break; }
        else if (st == 5) { if (sign) st = 6; else if (dig) { st = 7; end = i + 1; } else break; }
        else if (st == 6) { if (dig) { st = 7; end = i + 1; } else break; }
        else              { if (dig) { end = i + 1; } else break; }
    }
    return end;
}
/* ghost record of the last strtod call: value returned, length of the string passed, bytes consumed, and the byte of the
 * argument at the arbitrary index g_k (pointwise view of the argument string for the caller's contract) */
struct vf_strtod_ghost { double value; size_t len, consumed; unsigned char at_k; } g_sd;
#define g_strtod_value g_sd.value
#define g_strtod_len g_sd.len
#define g_strtod_consumed g_sd.consumed
#define g_strtod_at_k g_sd.at_k
#define GHOST_STRTOD g_sd
double strtod(const char *nptr, char **endptr)
{
    double v = nondet_double();
    size_t len, k, consumed;
    unsigned char dp = (unsigned char)vf_dp[0];
    __CPROVER_assert(__CPROVER_r_ok(nptr, 1), "strtod: readable");
    for (len = 0; len < 64; len++) { if (nptr[len] == 0) break; }
    __CPROVER_assert(len < 64, "strtod model: NUL-terminated within 64 bytes");
    for (k = 0; k < 64; k++)
    {
        unsigned char c;
        if (k >= len) break;
        c = (unsigned char)nptr[k];
        __CPROVER_assert((c >= '0' && c <= '9') || c == '+' || c == '-' || c == 'e' || c == 'E' || c == dp,
                         "strtod model domain: number token holds only [0-9+-eE] and the decimal point");
    }
    consumed = vf_numlen((const unsigned char*)nptr, len, dp);
    if (consumed == 0) { v = 0.0; }
    __CPROVER_assume(!__CPROVER_isnand(v));
    if (endptr != NULL) { *endptr = (char*)nptr + consumed; }
    g_strtod_value = v; g_strtod_len = len; g_strtod_consumed = consumed;
    g_strtod_at_k = (g_k < len) ? (unsigned char)nptr[g_k] : 0;
    return v;
}

/* ghost: which literal format the last sprintf used; whether the last sscanf converted and to what */
enum { FMT_NONE = 0, FMT_NULL, FMT_D, FMT_15G, FMT_17G, FMT_U04X };
struct vf_fmt_ghost { int fmt; _Bool scan_ok; double scan_value; } g_fm;
#define g_fmt g_fm.fmt
#define g_scan_ok g_fm.scan_ok
#define g_scan_value g_fm.scan_value
#define GHOST_FMT g_fm
static int vf_w(char *s, int lo, int hi)
{
    int n = nondet_int();
    __CPROVER_assume(n >= lo && n <= hi);
    __CPROVER_assert(__CPROVER_w_ok(s, (size_t)n + 1), "sprintf: destination large enough for the widest output");
    __CPROVER_havoc_slice(s, (size_t)n + 1);
    s[n] = 0;
    return n;
}
int vf_sprintf_null(char *s) { g_fmt = FMT_NULL; __CPROVER_assert(__CPROVER_w_ok(s, 5), "sprintf: destination"); s[0]='n'; s[1]='u'; s[2]='l'; s[3]='l'; s[4]=0; return 4; }
/* widths: %d of a 32-bit int <= 11 chars; %1.15g <= 22 (sign, 15 digits, point, e, sign, 3 digits); %1.17g <= 24 */
int vf_sprintf__d(char *s, int v) { (void)v; g_fmt = FMT_D; return vf_w(s, 1, 11); }
int vf_sprintf__1_15g(char *s, double d) { (void)d; g_fmt = FMT_15G; return vf_w(s, 1, 22); }
int vf_sprintf__1_17g(char *s, double d) { (void)d; g_fmt = FMT_17G; return vf_w(s, 1, 24); }
int vf_sprintf__i__i__i(char *s, int a, int b, int c) { (void)a; (void)b; (void)c; return vf_w(s, 5, 35); }
int vf_sprintf_u_04x(char *s, unsigned c)
{
    const char *hx = "0123456789abcdef";
    __CPROVER_assert(c <= 0xffff, "sprintf u%04x model: value fits four digits");
    __CPROVER_assert(__CPROVER_w_ok(s, 6), "sprintf: destination");
    s[0] = 'u'; s[1] = hx[(c >> 12) & 15]; s[2] = hx[(c >> 8) & 15]; s[3] = hx[(c >> 4) & 15]; s[4] = hx[c & 15]; s[5] = 0;
    return 5;
}

/* sprintf formats used by cJSON_Utils.c ("/%lu%s", "%s/", "%s/%lu", "%lu"): exact models for bounded units (strings <= 64 bytes, asserted) */
static size_t vf_put_dec(char *dst, unsigned long v)
{
    char tmp[20]; size_t n = 0, i;
    do { tmp[n++] = (char)('0' + v % 10); v /= 10; } while (v != 0 && n < 20);
    for (i = 0; i < 20; i++) { if (i >= n) break; dst[i] = tmp[n - 1 - i]; }
    return n;
}
static size_t vf_put_str(char *dst, const char *src)
{
    size_t i;
    for (i = 0; i < 64; i++) { dst[i] = src[i]; if (src[i] == 0) return i; }
    __CPROVER_assert(0, "sprintf %s model: string longer than 64 bytes");
    return 64;
}
int vf_sprintf___lu_s(char *dst, unsigned long idx, const unsigned char *tail) { size_t n = 0; dst[n++] = '/'; n += vf_put_dec(dst + n, idx); n += vf_put_str(dst + n, (const char*)tail); return (int)n; }
int vf_sprintf__s_(char *dst, const char *path) { size_t n = vf_put_str(dst, path); dst[n++] = '/'; dst[n] = 0; return (int)n; }
int vf_sprintf__s__lu(char *dst, const unsigned char *path, unsigned long idx) { size_t n = vf_put_str(dst, (const char*)path); dst[n++] = '/'; n += vf_put_dec(dst + n, idx); dst[n] = 0; return (int)n; }
int vf_sprintf__lu(char *dst, unsigned long idx) { size_t n = vf_put_dec(dst, idx); dst[n] = 0; return (int)n; }

int vf_sscanf__lg(const char *s, double *d)
{
    __CPROVER_assert(__CPROVER_r_ok(s, 1), "sscanf: readable");
    if (nondet_bool()) { g_scan_ok = 0; return 0; }
    *d = nondet_double();
    g_scan_ok = 1; g_scan_value = *d;
    return 1;
}

#endif
