/* ================================================================== tree construction and editing (C06, C07, C08, C11, C14) */
#define NODE_ZERO(n) ((n)->next == NULL && (n)->prev == NULL && (n)->child == NULL && (n)->type == 0 && (n)->valuestring == NULL && (n)->valueint == 0 && (n)->valuedouble == 0.0 && (n)->string == NULL)
#define IS_BLOCK(p) (__CPROVER_POINTER_OFFSET(p) == 0 && __CPROVER_DYNAMIC_OBJECT(p))
#define LIVE_IS(p) (g_live == __CPROVER_old(g_live) || (__CPROVER_old(g_live) == NULL && g_live == (void*)(p)))

/* ------------------------------------------------------------------ cJSON_New_Item / cJSON_strdup / cJSON_malloc / cJSON_free */
static cJSON *cJSON_New_Item(const internal_hooks * const hooks)
__CPROVER_requires(__CPROVER_is_fresh(hooks, sizeof(internal_hooks)) && HOOKS_OK(*hooks))
__CPROVER_ensures(__CPROVER_return_value == NULL || (__CPROVER_is_fresh(__CPROVER_return_value, sizeof(cJSON)) && NODE_ZERO(__CPROVER_return_value))) /*@C06 C08*/
__CPROVER_ensures(__CPROVER_return_value == NULL ? LIVE_SAME : LIVE_IS(__CPROVER_return_value)) /*@C08 C07*/
__CPROVER_ensures(C14_POST(*hooks)) /*@C14*/
__CPROVER_ensures(HOOKS_CUSTOM(*hooks) ==> g_hook_allocs - __CPROVER_old(g_hook_allocs) == (__CPROVER_return_value != NULL ? 1 : 0)) /*@C14*/
__CPROVER_assigns(GHOST_ALLOC);

static unsigned char* cJSON_strdup(const unsigned char* string, const internal_hooks * const hooks)
__CPROVER_requires(__CPROVER_is_fresh(hooks, sizeof(internal_hooks)) && HOOKS_OK(*hooks) && (string == NULL || STR(string, g_str_n)))
__CPROVER_ensures(string == NULL ==> __CPROVER_return_value == NULL) /*@C06*/
/* the copy is a block of exactly strlen+1 bytes holding the same bytes and terminator */
__CPROVER_ensures(__CPROVER_return_value != NULL ==> (IS_BLOCK(__CPROVER_return_value) && __CPROVER_OBJECT_SIZE(__CPROVER_return_value) <= g_str_n &&
    string[__CPROVER_OBJECT_SIZE(__CPROVER_return_value) - 1] == 0)) /*@C06 C07 C11*/
__CPROVER_ensures((__CPROVER_return_value != NULL && g_k < __CPROVER_OBJECT_SIZE(__CPROVER_return_value)) ==> (__CPROVER_return_value[g_k] == string[g_k] && (g_k + 1 == __CPROVER_OBJECT_SIZE(__CPROVER_return_value) || string[g_k] != 0))) /*@C06 C11*/
__CPROVER_ensures(__CPROVER_return_value == NULL ? LIVE_SAME : LIVE_IS(__CPROVER_return_value)) /*@C08 C07*/
__CPROVER_ensures(C14_POST(*hooks)) /*@C14*/
__CPROVER_assigns(GHOST_ALLOC);

CJSON_PUBLIC(void *) cJSON_malloc(size_t size)
__CPROVER_requires(HOOKS_OK(global_hooks) && size <= VF_MAXLEN)
__CPROVER_ensures(__CPROVER_return_value == NULL || (IS_BLOCK(__CPROVER_return_value) && __CPROVER_OBJECT_SIZE(__CPROVER_return_value) == size)) /*@C14*/
__CPROVER_ensures(C14_POST(global_hooks)) /*@C14*/
__CPROVER_ensures(HOOKS_CUSTOM(global_hooks) ==> g_hook_allocs - __CPROVER_old(g_hook_allocs) == (__CPROVER_return_value != NULL ? 1 : 0)) /*@C14*/
__CPROVER_assigns(GHOST_ALLOC);

CJSON_PUBLIC(void) cJSON_free(void *object)
__CPROVER_requires(HOOKS_OK(global_hooks) && (object == NULL || (__CPROVER_is_fresh(object, g_str_n) && g_str_n <= VF_MAXLEN)))
__CPROVER_ensures(object != NULL ==> __CPROVER_was_freed(object)) /*@C14 C07*/
__CPROVER_ensures(C14_POST(global_hooks)) /*@C14*/
__CPROVER_ensures(HOOKS_CUSTOM(global_hooks) ==> g_hook_frees - __CPROVER_old(g_hook_frees) == (object != NULL ? 1 : 0)) /*@C14*/
__CPROVER_assigns(GHOST_ALLOC)
__CPROVER_frees(object);

/* ------------------------------------------------------------------ cJSON_InitHooks (C14) */
CJSON_PUBLIC(void) cJSON_InitHooks(cJSON_Hooks* hooks)
__CPROVER_requires(hooks == NULL || __CPROVER_is_fresh(hooks, sizeof(cJSON_Hooks)))
/* NULL restores the three defaults */
__CPROVER_ensures(hooks == NULL ==> HOOKS_LIBC(global_hooks)) /*@C14*/
/* each member is defaulted individually */
__CPROVER_ensures(hooks != NULL ==> (global_hooks.allocate == (hooks->malloc_fn != NULL ? hooks->malloc_fn : vf_libc_malloc) &&
    global_hooks.deallocate == (hooks->free_fn != NULL ? hooks->free_fn : vf_libc_free))) /*@C14*/
/* realloc is used only with the complete default pair, and then it is the libc one */
__CPROVER_ensures(global_hooks.reallocate == ((global_hooks.allocate == vf_libc_malloc && global_hooks.deallocate == vf_libc_free) ? vf_libc_realloc : NULL)) /*@C14*/
__CPROVER_ensures(g_libc_calls == __CPROVER_old(g_libc_calls) && g_hook_allocs == __CPROVER_old(g_hook_allocs)) /*@C14*/
__CPROVER_assigns(global_hooks);

/* ------------------------------------------------------------------ cJSON_SetNumberHelper / cJSON_CreateNumber */
CJSON_PUBLIC(double) cJSON_SetNumberHelper(cJSON *object, double number)
__CPROVER_requires(__CPROVER_is_fresh(object, sizeof(cJSON)))
__CPROVER_ensures(object->valuedouble == number || (__CPROVER_isnand(number) && __CPROVER_isnand(object->valuedouble))) /*@C06*/
__CPROVER_ensures(!__CPROVER_isnand(number) ==> (object->valueint == SAT_INT(number) && __CPROVER_return_value == number)) /*@C06*/
__CPROVER_assigns(object->valueint, object->valuedouble);

/* scalar constructors: enforced view for their own unit; callee view (ghost g_cr_ret designates the created node) for the Add helpers */
cJSON *g_cr_ret; size_t g_cr_calls;
#define RET __CPROVER_return_value
#define NODE_IS(n, t) ((n)->type == (t) && (n)->next == NULL && (n)->prev == NULL && (n)->child == NULL && (n)->string == NULL)
#define CREATE_CONTRACT(fn, params, t, extra) \
CJSON_PUBLIC(cJSON *) fn params \
__CPROVER_requires(HOOKS_OK(global_hooks)) \
__CPROVER_ensures(RET == NULL || (__CPROVER_is_fresh(RET, sizeof(cJSON)) && NODE_IS(RET, t) && (extra))) /*@C06*/ \
__CPROVER_ensures(RET == NULL ? LIVE_SAME : LIVE_IS(RET)) /*@C08 C07*/ \
__CPROVER_ensures(C14_POST(global_hooks)) /*@C14*/ \
__CPROVER_assigns(GHOST_ALLOC);
#define CREATE_VIEW(fn, params, t) \
CJSON_PUBLIC(cJSON *) fn params \
__CPROVER_ensures(RET == NULL ? g_cr_ret == NULL : (__CPROVER_is_fresh(g_cr_ret, sizeof(cJSON)) && __CPROVER_pointer_in_range_dfcc(g_cr_ret, RET, g_cr_ret) && RET == g_cr_ret && NODE_IS(g_cr_ret, t))) \
__CPROVER_ensures(RET == NULL ? LIVE_SAME : LIVE_IS(RET)) \
__CPROVER_ensures(g_cr_calls == __CPROVER_old(g_cr_calls) + 1 && g_hook_frees == __CPROVER_old(g_hook_frees) && C14_POST(global_hooks)) \
__CPROVER_assigns(g_cr_ret, g_cr_calls, GHOST_ALLOC);
#ifdef VF_CREATE_VIEWS
CREATE_VIEW(cJSON_CreateNull, (void), cJSON_NULL)
CREATE_VIEW(cJSON_CreateTrue, (void), cJSON_True)
CREATE_VIEW(cJSON_CreateFalse, (void), cJSON_False)
CREATE_VIEW(cJSON_CreateBool, (cJSON_bool boolean), (boolean ? cJSON_True : cJSON_False))
CREATE_VIEW(cJSON_CreateArray, (void), cJSON_Array)
CREATE_VIEW(cJSON_CreateObject, (void), cJSON_Object)
CREATE_VIEW(cJSON_CreateNumber, (double num), cJSON_Number)
CREATE_VIEW(cJSON_CreateString, (const char *string), cJSON_String)
CREATE_VIEW(cJSON_CreateRaw, (const char *raw), cJSON_Raw)
#else
CREATE_CONTRACT(cJSON_CreateNull, (void), cJSON_NULL, RET->valuestring == NULL)
CREATE_CONTRACT(cJSON_CreateTrue, (void), cJSON_True, RET->valuestring == NULL)
CREATE_CONTRACT(cJSON_CreateFalse, (void), cJSON_False, RET->valuestring == NULL)
CREATE_CONTRACT(cJSON_CreateBool, (cJSON_bool boolean), (boolean ? cJSON_True : cJSON_False), RET->valuestring == NULL)
CREATE_CONTRACT(cJSON_CreateArray, (void), cJSON_Array, RET->valuestring == NULL)
CREATE_CONTRACT(cJSON_CreateObject, (void), cJSON_Object, RET->valuestring == NULL)
CREATE_CONTRACT(cJSON_CreateNumber, (double num), cJSON_Number, RET->valuestring == NULL && (RET->valuedouble == num || __CPROVER_isnand(num)) && (__CPROVER_isnand(num) || RET->valueint == SAT_INT(num)))
#endif

/* ------------------------------------------------------------------ get_array_item as a callee (W units): returns the node the harness designates
 * (its own unit proves it is the index-th child or NULL).  Provenance through pointer_in_range_dfcc. */
cJSON *g_gai_ret; const cJSON *g_gai_array; size_t g_gai_index; size_t g_gai_calls;
#ifndef VF_ENF_get_array_item
static cJSON* get_array_item(const cJSON *array, size_t index)
__CPROVER_ensures(g_gai_ret == NULL ? __CPROVER_return_value == NULL : (__CPROVER_pointer_in_range_dfcc(g_gai_ret, __CPROVER_return_value, g_gai_ret) && __CPROVER_return_value == g_gai_ret))
__CPROVER_ensures(g_gai_array == array && g_gai_index == index && g_gai_calls == __CPROVER_old(g_gai_calls) + 1)
__CPROVER_assigns(g_gai_array, g_gai_index, g_gai_calls);
#endif

/* ------------------------------------------------------------------ callee views used by the object/key helpers */
struct vf_dup_ghost { const unsigned char * dup_src; size_t dup_n; size_t dup_calls; unsigned char * dup_ret; } g_du;
#define g_dup_src g_du.dup_src
#define g_dup_n g_du.dup_n
#define g_dup_calls g_du.dup_calls
#define g_dup_ret g_du.dup_ret
#define GHOST_DUP g_du
#ifndef VF_ENF_cJSON_strdup
/* cJSON_strdup as a callee: NULL, or a fresh block (the copy; its contents are pinned by cJSON_strdup's own unit). The source must still be readable. */
static unsigned char* cJSON_strdup_cv(const unsigned char* string, const internal_hooks * const hooks)
__CPROVER_requires(string == NULL || __CPROVER_r_ok(string, 1))
__CPROVER_ensures(string == NULL ==> __CPROVER_return_value == NULL)
__CPROVER_ensures(__CPROVER_return_value == NULL || (__CPROVER_is_fresh(g_dup_ret, g_dup_n) && g_dup_n >= 1 && g_dup_n <= VF_MAXLEN &&
    __CPROVER_pointer_in_range_dfcc(g_dup_ret, __CPROVER_return_value, g_dup_ret) && __CPROVER_return_value == g_dup_ret))
__CPROVER_ensures(g_dup_src == string && g_dup_calls == __CPROVER_old(g_dup_calls) + 1)
__CPROVER_ensures(__CPROVER_return_value == NULL ? (LIVE_SAME && g_dup_ret == NULL) : LIVE_IS(__CPROVER_return_value))
__CPROVER_ensures(g_hook_frees == __CPROVER_old(g_hook_frees) && C14_POST(*hooks))
__CPROVER_assigns(GHOST_DUP, GHOST_ALLOC);
#endif
cJSON *g_aita_array, *g_aita_item; cJSON_bool g_aita_ret; size_t g_aita_calls;
#define GHOST_AITA g_aita_array, g_aita_item, g_aita_ret, g_aita_calls
#ifndef VF_ENF_add_item_to_array
static cJSON_bool add_item_to_array_cv(cJSON *array, cJSON *item)
__CPROVER_ensures(g_aita_array == array && g_aita_item == item && g_aita_ret == __CPROVER_return_value && g_aita_calls == __CPROVER_old(g_aita_calls) + 1)
__CPROVER_ensures(__CPROVER_return_value == ((item == NULL || array == NULL || array == item) ? 0 : 1))   /* proved by unit w_add_item_to_array */
__CPROVER_assigns(GHOST_AITA; array != NULL && item != NULL && array != item: array->child, item->next, item->prev);
#endif

/* ------------------------------------------------------------------ create_reference (C07: the source is never touched) */
static cJSON *create_reference(const cJSON *item, const internal_hooks * const hooks)
__CPROVER_requires(__CPROVER_is_fresh(hooks, sizeof(internal_hooks)) && HOOKS_OK(*hooks) && (item == NULL || __CPROVER_is_fresh(item, sizeof(cJSON))))
__CPROVER_ensures(item == NULL ==> RET == NULL) /*@C06*/
__CPROVER_ensures(RET != NULL ==> (__CPROVER_rw_ok(RET, sizeof(cJSON)) && RET != item && RET->type == (item->type | cJSON_IsReference) && RET->child == item->child &&
    RET->valuestring == item->valuestring && RET->valueint == item->valueint && (RET->valuedouble == item->valuedouble || __CPROVER_isnand(item->valuedouble)) &&
    RET->string == NULL && RET->next == NULL && RET->prev == NULL)) /*@C06 C07*/
__CPROVER_ensures(RET == NULL ? LIVE_SAME : LIVE_IS(RET)) /*@C08 C07*/
__CPROVER_ensures(C14_POST(*hooks)) /*@C14*/
__CPROVER_assigns(GHOST_ALLOC);

/* ------------------------------------------------------------------ add_item_to_object (key handling; C06, C07 aliasing, C08) */
struct vf_aito_ghost { cJSON * aito_object; cJSON * aito_item; const char * aito_string; const internal_hooks * aito_hooks; cJSON_bool aito_const; cJSON_bool aito_ret; size_t aito_calls; } g_ao;
#define g_aito_object g_ao.aito_object
#define g_aito_item g_ao.aito_item
#define g_aito_string g_ao.aito_string
#define g_aito_hooks g_ao.aito_hooks
#define g_aito_const g_ao.aito_const
#define g_aito_ret g_ao.aito_ret
#define g_aito_calls g_ao.aito_calls
#define GHOST_AITO g_ao
_Bool g_alias;   /* ghost: the key argument is the item's own current key (C07: "a key ... may alias memory of the item being added") */
#define AITO_REFUSED (object == NULL || string == NULL || item == NULL || object == item)
#define OLD_KEY_OWNED (!(__CPROVER_old(item->type) & cJSON_StringIsConst) && __CPROVER_old(item->string) != NULL)
static cJSON_bool add_item_to_object(cJSON * const object, const char * const string, cJSON * const item, const internal_hooks * const hooks, const cJSON_bool constant_key)
#ifdef VF_ENF_add_item_to_object
__CPROVER_requires(__CPROVER_is_fresh(hooks, sizeof(internal_hooks)) && HOOKS_OK(*hooks) && g_dup_calls == 0 && g_aita_calls == 0)
__CPROVER_requires((object == NULL || __CPROVER_is_fresh(object, sizeof(cJSON))) && (string == NULL || STR(string, g_str_n)))
__CPROVER_requires(item == NULL || item == object || (__CPROVER_is_fresh(item, sizeof(cJSON)) &&
    ((g_alias && string != NULL) ? (__CPROVER_pointer_in_range_dfcc(string, item->string, string) && item->string == string) : (item->string == NULL || __CPROVER_is_fresh(item->string, 1)))))
/* refused calls change nothing and call nothing */
__CPROVER_ensures(AITO_REFUSED ==> (!RET && g_dup_calls == 0 && g_aita_calls == 0 && g_hook_frees == __CPROVER_old(g_hook_frees))) /*@C06 C08*/
__CPROVER_ensures((AITO_REFUSED && item != NULL && item != object) ==> (item->string == __CPROVER_old(item->string) && item->type == __CPROVER_old(item->type))) /*@C06*/
/* constant key: borrowed as is, flagged constant, no copy */
__CPROVER_ensures((!AITO_REFUSED && constant_key) ==> (item->string == string && item->type == (__CPROVER_old(item->type) | cJSON_StringIsConst) && g_dup_calls == 0)) /*@C06 C07*/
/* owned key: one copy of the key argument; if that fails the call fails and the item keeps its old key */
__CPROVER_ensures((!AITO_REFUSED && !constant_key) ==> (g_dup_calls == 1 && g_dup_src == (const unsigned char*)string)) /*@C06 C07*/
__CPROVER_ensures((!AITO_REFUSED && !constant_key && g_dup_ret == NULL) ==> (!RET && item->string == __CPROVER_old(item->string) && item->type == __CPROVER_old(item->type) && g_aita_calls == 0 && g_hook_frees == __CPROVER_old(g_hook_frees))) /*@C08 C06*/
__CPROVER_ensures((!AITO_REFUSED && !constant_key && g_dup_ret != NULL) ==> (item->string == (char*)g_dup_ret && item->type == (__CPROVER_old(item->type) & ~cJSON_StringIsConst))) /*@C06 C07*/
/* the old key is released exactly when the item owned it, and only after the new key exists */
__CPROVER_ensures((!AITO_REFUSED && (constant_key || g_dup_ret != NULL) && !g_alias) ==> (OLD_KEY_OWNED ? __CPROVER_was_freed(__CPROVER_old(item->string)) : g_hook_frees == __CPROVER_old(g_hook_frees))) /*@C07 C14*/
/* then the item is appended to the object exactly once and that verdict is returned */
__CPROVER_ensures((!AITO_REFUSED && (constant_key || g_dup_ret != NULL)) ==> (g_aita_calls == 1 && g_aita_array == object && g_aita_item == item && RET == g_aita_ret)) /*@C06*/
__CPROVER_ensures(RET == 0 || RET == 1) /*@C06*/
__CPROVER_ensures(C14_POST(*hooks)) /*@C14*/
__CPROVER_assigns(GHOST_DUP, GHOST_AITA, GHOST_ALLOC; item != NULL && item != object: item->string, item->type, item->next, item->prev; object != NULL: object->child)
__CPROVER_frees(item != NULL && item != object: item->string);
#else
/* callee view: logged; false when refused; an attached item is owned by the object */
__CPROVER_ensures(g_aito_object == object && g_aito_string == string && g_aito_item == item && g_aito_hooks == hooks && g_aito_const == constant_key && g_aito_ret == RET && g_aito_calls == __CPROVER_old(g_aito_calls) + 1)
__CPROVER_ensures(AITO_REFUSED ==> !RET)
__CPROVER_ensures(RET == 0 || RET == 1)
__CPROVER_ensures(LIVE_SAME && C14_POST(global_hooks))
__CPROVER_assigns(GHOST_AITO, GHOST_ALLOC; !AITO_REFUSED: item->string, item->type, item->next, item->prev, object->child);
#endif

/* ------------------------------------------------------------------ the nine cJSON_Add<X>ToObject helpers (C06, C08)
 * create the item; attach it with an owned copy of the name; when that fails delete the item and return NULL */
#define ADD_HELPER(fn, params) \
CJSON_PUBLIC(cJSON*) fn params \
__CPROVER_requires(g_cr_calls == 0 && g_aito_calls == 0 && g_del_calls == 0 && HOOKS_OK(global_hooks)) \
__CPROVER_requires((object == NULL || __CPROVER_is_fresh(object, sizeof(cJSON))) && (name == NULL || STR(name, g_str_n))) \
__CPROVER_ensures(g_cr_calls == 1 && g_aito_calls == 1 && g_aito_object == object && g_aito_string == name && g_aito_item == g_cr_ret && g_aito_hooks == &global_hooks && !g_aito_const) /*@C06*/ \
__CPROVER_ensures(g_aito_ret ? (RET == g_cr_ret && g_del_calls == 0) : (RET == NULL && g_del_calls == 1 && g_del_arg == g_cr_ret)) /*@C06 C08 C07*/ \
__CPROVER_ensures(RET == NULL ==> LIVE_SAME) /*@C08*/ \
__CPROVER_ensures(C14_POST(global_hooks)) /*@C14*/ \
__CPROVER_assigns(g_cr_ret, g_cr_calls, GHOST_DEL, GHOST_AITO, GHOST_ALLOC; object != NULL: object->child);
#ifdef VF_CREATE_VIEWS
ADD_HELPER(cJSON_AddNullToObject, (cJSON * const object, const char * const name))
ADD_HELPER(cJSON_AddTrueToObject, (cJSON * const object, const char * const name))
ADD_HELPER(cJSON_AddFalseToObject, (cJSON * const object, const char * const name))
ADD_HELPER(cJSON_AddBoolToObject, (cJSON * const object, const char * const name, const cJSON_bool boolean))
ADD_HELPER(cJSON_AddNumberToObject, (cJSON * const object, const char * const name, const double number))
ADD_HELPER(cJSON_AddStringToObject, (cJSON * const object, const char * const name, const char * const string))
ADD_HELPER(cJSON_AddRawToObject, (cJSON * const object, const char * const name, const char * const raw))
ADD_HELPER(cJSON_AddObjectToObject, (cJSON * const object, const char * const name))
ADD_HELPER(cJSON_AddArrayToObject, (cJSON * const object, const char * const name))
#endif

/* ------------------------------------------------------------------ cJSON_CreateString / cJSON_CreateRaw: node + owned copy; when the copy fails the node is deleted */
#ifndef VF_CREATE_VIEWS
#define CREATE_STR_CONTRACT(fn, arg, t) \
CJSON_PUBLIC(cJSON *) fn(const char *arg) \
__CPROVER_requires(HOOKS_OK(global_hooks) && g_dup_calls == 0 && g_del_calls == 0 && (arg == NULL || STR(arg, g_str_n))) \
__CPROVER_ensures(RET != NULL ==> (__CPROVER_is_fresh(RET, sizeof(cJSON)) && NODE_IS(RET, t) && g_dup_calls == 1 && g_dup_src == (const unsigned char*)arg && RET->valuestring == (char*)g_dup_ret && g_dup_ret != NULL && g_del_calls == 0)) /*@C06 C07*/ \
__CPROVER_ensures(RET == NULL ==> (LIVE_SAME && (g_dup_calls == 0 || (g_dup_ret == NULL && g_del_calls == 1)))) /*@C08 C07*/ \
__CPROVER_ensures(arg == NULL ==> RET == NULL) /*@C06*/ \
__CPROVER_ensures(C14_POST(global_hooks)) /*@C14*/ \
__CPROVER_assigns(GHOST_DUP, GHOST_DEL, GHOST_ALLOC);
CREATE_STR_CONTRACT(cJSON_CreateString, string, cJSON_String)
CREATE_STR_CONTRACT(cJSON_CreateRaw, raw, cJSON_Raw)
#endif

/* reference constructors: borrow the argument, never copy, flagged IsReference so that cJSON_Delete leaves it alone (C07) */
CJSON_PUBLIC(cJSON *) cJSON_CreateStringReference(const char *string)
__CPROVER_requires(HOOKS_OK(global_hooks))
__CPROVER_ensures(RET == NULL || (__CPROVER_is_fresh(RET, sizeof(cJSON)) && NODE_IS(RET, cJSON_String | cJSON_IsReference) && RET->valuestring == string)) /*@C06 C07*/
__CPROVER_ensures((RET == NULL ? LIVE_SAME : LIVE_IS(RET)) && C14_POST(global_hooks)) /*@C08 C14*/
__CPROVER_assigns(GHOST_ALLOC);
#define CREATE_REF_CONTRACT(fn, t) \
CJSON_PUBLIC(cJSON *) fn(const cJSON *child) \
__CPROVER_requires(HOOKS_OK(global_hooks)) \
__CPROVER_ensures(RET == NULL || (__CPROVER_is_fresh(RET, sizeof(cJSON)) && RET->type == ((t) | cJSON_IsReference) && RET->child == child && RET->next == NULL && RET->prev == NULL && RET->string == NULL && RET->valuestring == NULL)) /*@C06 C07*/ \
__CPROVER_ensures((RET == NULL ? LIVE_SAME : LIVE_IS(RET)) && C14_POST(global_hooks)) /*@C08 C14*/ \
__CPROVER_assigns(GHOST_ALLOC);
CREATE_REF_CONTRACT(cJSON_CreateObjectReference, cJSON_Object)
CREATE_REF_CONTRACT(cJSON_CreateArrayReference, cJSON_Array)

/* ------------------------------------------------------------------ cJSON_AddItemReferenceToArray / cJSON_AddItemReferenceToObject */
const cJSON *g_ref_src; const internal_hooks *g_ref_hooks;
#ifdef VF_REF_VIEWS
static cJSON *create_reference_cv(const cJSON *item, const internal_hooks * const hooks)
__CPROVER_ensures(RET == NULL ? g_cr_ret == NULL : (__CPROVER_is_fresh(g_cr_ret, sizeof(cJSON)) && __CPROVER_pointer_in_range_dfcc(g_cr_ret, RET, g_cr_ret) && RET == g_cr_ret))
__CPROVER_ensures(item == NULL ==> RET == NULL)
__CPROVER_ensures(RET == NULL ? LIVE_SAME : LIVE_IS(RET))
__CPROVER_ensures(g_ref_src == item && g_ref_hooks == hooks && g_cr_calls == __CPROVER_old(g_cr_calls) + 1 && g_hook_frees == __CPROVER_old(g_hook_frees) && C14_POST(global_hooks))
__CPROVER_assigns(g_cr_ret, g_cr_calls, g_ref_src, g_ref_hooks, GHOST_ALLOC);
#endif
CJSON_PUBLIC(cJSON_bool) cJSON_AddItemReferenceToArray(cJSON *array, cJSON *item)
__CPROVER_requires(HOOKS_OK(global_hooks) && g_cr_calls == 0 && g_aita_calls == 0 && (array == NULL || __CPROVER_is_fresh(array, sizeof(cJSON))))
__CPROVER_ensures(array == NULL ==> (!RET && g_cr_calls == 0 && g_aita_calls == 0)) /*@C06*/
/* a reference node for the item is created with the global hooks and appended; the item itself is not touched (not in the frame) */
__CPROVER_ensures(array != NULL ==> (g_cr_calls == 1 && g_ref_src == item && g_ref_hooks == &global_hooks && g_aita_calls == 1 && g_aita_array == array && g_aita_item == g_cr_ret && RET == g_aita_ret)) /*@C06 C07*/
__CPROVER_ensures(!RET ==> LIVE_SAME) /*@C08*/
__CPROVER_ensures(C14_POST(global_hooks)) /*@C14*/
__CPROVER_assigns(g_cr_ret, g_cr_calls, g_ref_src, g_ref_hooks, GHOST_AITA, GHOST_ALLOC; array != NULL: array->child);

CJSON_PUBLIC(cJSON_bool) cJSON_AddItemReferenceToObject(cJSON *object, const char *string, cJSON *item)
__CPROVER_requires(HOOKS_OK(global_hooks) && g_cr_calls == 0 && g_aito_calls == 0 && g_del_calls == 0 && (object == NULL || __CPROVER_is_fresh(object, sizeof(cJSON))) && (string == NULL || STR(string, g_str_n)))
__CPROVER_ensures((object == NULL || string == NULL) ==> (!RET && g_cr_calls == 0 && g_aito_calls == 0)) /*@C06*/
__CPROVER_ensures((object != NULL && string != NULL) ==> (g_cr_calls == 1 && g_ref_src == item && g_ref_hooks == &global_hooks && g_aito_calls == 1 && g_aito_object == object &&
    g_aito_string == string && g_aito_item == g_cr_ret && g_aito_hooks == &global_hooks && !g_aito_const && RET == g_aito_ret)) /*@C06 C07*/
/* C08: when the call fails nothing allocated during it remains (the reference node included) */
__CPROVER_ensures(!RET ==> LIVE_SAME) /*@C08 C07*/
__CPROVER_ensures(C14_POST(global_hooks)) /*@C14*/
__CPROVER_assigns(g_cr_ret, g_cr_calls, g_ref_src, g_ref_hooks, GHOST_DEL, GHOST_AITO, GHOST_ALLOC; object != NULL: object->child);

/* ------------------------------------------------------------------ callee views: cJSON_free, get_object_item, cJSON_ReplaceItemViaPointer */
void *g_free_arg; size_t g_free_calls;
#ifndef VF_ENF_cJSON_free
CJSON_PUBLIC(void) cJSON_free_cv(void *object)
__CPROVER_requires(object == NULL || __CPROVER_POINTER_OFFSET(object) == 0)
__CPROVER_ensures(g_live == ((__CPROVER_old(g_live) == object) ? NULL : __CPROVER_old(g_live)) && g_free_arg == object && g_free_calls == __CPROVER_old(g_free_calls) + 1)
__CPROVER_ensures(g_hook_allocs == __CPROVER_old(g_hook_allocs) && C14_POST(global_hooks))
__CPROVER_assigns(GHOST_ALLOC, g_free_arg, g_free_calls)
__CPROVER_frees(object);
#endif
cJSON *g_goi_ret; const cJSON *g_goi_object; const char *g_goi_name; cJSON_bool g_goi_cs; size_t g_goi_calls;
#define GHOST_GOI g_goi_object, g_goi_name, g_goi_cs, g_goi_calls
#ifndef VF_ENF_get_object_item
static cJSON *get_object_item_cv(const cJSON * const object, const char * const name, const cJSON_bool case_sensitive)
__CPROVER_requires(name == NULL || __CPROVER_r_ok(name, 1))
__CPROVER_ensures(g_goi_ret == NULL ? RET == NULL : (__CPROVER_pointer_in_range_dfcc(g_goi_ret, RET, g_goi_ret) && RET == g_goi_ret))
__CPROVER_ensures(g_goi_object == object && g_goi_name == name && g_goi_cs == case_sensitive && g_goi_calls == __CPROVER_old(g_goi_calls) + 1)
__CPROVER_assigns(GHOST_GOI);
#endif
cJSON *g_rvp_parent, *g_rvp_item, *g_rvp_repl; cJSON_bool g_rvp_ret; size_t g_rvp_calls;
#define GHOST_RVP g_rvp_parent, g_rvp_item, g_rvp_repl, g_rvp_ret, g_rvp_calls
#ifdef VF_RVP_VIEW
CJSON_PUBLIC(cJSON_bool) cJSON_ReplaceItemViaPointer(cJSON * const parent, cJSON * const item, cJSON * replacement)
__CPROVER_ensures(g_rvp_parent == parent && g_rvp_item == item && g_rvp_repl == replacement && g_rvp_ret == RET && g_rvp_calls == __CPROVER_old(g_rvp_calls) + 1 && (RET == 0 || RET == 1))
__CPROVER_ensures((parent == NULL || item == NULL || replacement == NULL) ==> !RET)
__CPROVER_ensures(LIVE_SAME && C14_POST(global_hooks))
__CPROVER_assigns(GHOST_RVP, GHOST_ALLOC; replacement != NULL: replacement->next, replacement->prev);
#endif

/* ------------------------------------------------------------------ replace_item_in_object (C06; C07: the key may be the replacement's own key; C08) */
#define RIO_REFUSED (replacement == NULL || string == NULL)
#define RIO_KEY_OWNED (!(__CPROVER_old(replacement->type) & cJSON_StringIsConst) && __CPROVER_old(replacement->string) != NULL)
static cJSON_bool replace_item_in_object(cJSON *object, const char *string, cJSON *replacement, cJSON_bool case_sensitive)
__CPROVER_requires(HOOKS_OK(global_hooks) && g_dup_calls == 0 && g_goi_calls == 0 && g_rvp_calls == 0 && g_free_calls == 0 && (string == NULL || STR(string, g_str_n)))
__CPROVER_requires(replacement == NULL || (__CPROVER_is_fresh(replacement, sizeof(cJSON)) &&
    ((g_alias && string != NULL) ? (__CPROVER_pointer_in_range_dfcc(string, replacement->string, string) && replacement->string == string) : (replacement->string == NULL || __CPROVER_is_fresh(replacement->string, 1)))))
__CPROVER_ensures(RIO_REFUSED ==> (!RET && g_dup_calls == 0 && g_goi_calls == 0 && g_rvp_calls == 0 && g_free_calls == 0)) /*@C06*/
/* one owned copy of the key, taken while the key argument is still valid (callee precondition) */
__CPROVER_ensures(!RIO_REFUSED ==> (g_dup_calls == 1 && g_dup_src == (const unsigned char*)string)) /*@C06 C07*/
/* C08: if the copy fails the call fails and nothing was changed or released */
__CPROVER_ensures((!RIO_REFUSED && g_dup_ret == NULL) ==> (!RET && replacement->string == __CPROVER_old(replacement->string) && replacement->type == __CPROVER_old(replacement->type) && g_free_calls == 0 && g_rvp_calls == 0)) /*@C08*/
/* otherwise the replacement gets the owned copy; its previous key is released exactly when it owned one */
__CPROVER_ensures((!RIO_REFUSED && g_dup_ret != NULL) ==> (replacement->string == (char*)g_dup_ret && replacement->type == (__CPROVER_old(replacement->type) & ~cJSON_StringIsConst))) /*@C06 C07*/
__CPROVER_ensures((!RIO_REFUSED && g_dup_ret != NULL) ==> (RIO_KEY_OWNED ? (g_free_calls == 1 && g_free_arg == (void*)__CPROVER_old(replacement->string)) : g_free_calls == 0)) /*@C07*/
/* the member is looked up by the caller's key with the caller's case rule (while the key is still valid) and replaced through the pointer variant */
__CPROVER_ensures((!RIO_REFUSED && g_dup_ret != NULL) ==> (g_goi_calls == 1 && g_goi_object == object && g_goi_name == string && g_goi_cs == case_sensitive &&
    g_rvp_calls == 1 && g_rvp_parent == object && g_rvp_item == g_goi_ret && g_rvp_repl == replacement && RET == g_rvp_ret)) /*@C06*/
__CPROVER_ensures(C14_POST(global_hooks)) /*@C14*/
__CPROVER_assigns(GHOST_DUP, GHOST_GOI, GHOST_RVP, GHOST_ALLOC, g_free_arg, g_free_calls; replacement != NULL: replacement->string, replacement->type, replacement->next, replacement->prev)
__CPROVER_frees(replacement != NULL: replacement->string);

/* ================================================================== thin public wrappers (C06: every public edit/query call forwards to the helper proved above)
 * Callees are replaced by logging callee views; the wrapper's contract states which helper is called with which arguments and that its answer is returned unchanged. */
struct vf_fwd_ghost { cJSON *dvp_parent, *dvp_item, *dvp_ret; size_t dvp_calls; } g_fwd;
struct vf_fwr_ghost { cJSON *rio_object, *rio_repl; const char *rio_string; cJSON_bool rio_cs, rio_ret; size_t rio_calls; } g_fwr;
struct vf_fwp_ghost { cJSON *pub_ret; const void *pub_a; const void *pub_b; size_t pub_calls; } g_fwp;
#ifdef VF_WRAPPER_VIEWS
CJSON_PUBLIC(cJSON *) cJSON_DetachItemViaPointer(cJSON *parent, cJSON * const item)
__CPROVER_ensures(g_fwd.dvp_parent == parent && g_fwd.dvp_item == item && g_fwd.dvp_ret == RET && g_fwd.dvp_calls == __CPROVER_old(g_fwd.dvp_calls) + 1)
__CPROVER_ensures((parent == NULL || item == NULL) ==> RET == NULL)
__CPROVER_ensures(RET == NULL || RET == item)
__CPROVER_assigns(g_fwd);
static cJSON_bool replace_item_in_object_cv(cJSON *object, const char *string, cJSON *replacement, cJSON_bool case_sensitive)
__CPROVER_ensures(g_fwr.rio_object == object && g_fwr.rio_string == string && g_fwr.rio_repl == replacement && g_fwr.rio_cs == case_sensitive && g_fwr.rio_ret == RET && g_fwr.rio_calls == __CPROVER_old(g_fwr.rio_calls) + 1 && (RET == 0 || RET == 1))
__CPROVER_assigns(g_fwr, GHOST_ALLOC);
/* the public lookups / detach functions as callees of the Delete/Detach wrappers */
#define PUB_VIEW(fn, params, a, b) \
CJSON_PUBLIC(cJSON *) fn params \
__CPROVER_ensures(RET == NULL || __CPROVER_is_fresh(RET, sizeof(cJSON))) \
__CPROVER_ensures(g_fwp.pub_a == (const void*)(a) && g_fwp.pub_b == (const void*)(b) && g_fwp.pub_ret == RET && g_fwp.pub_calls == __CPROVER_old(g_fwp.pub_calls) + 1) \
__CPROVER_assigns(g_fwp);
#ifdef VF_PUBVIEW_GetObjectItem
PUB_VIEW(cJSON_GetObjectItem, (const cJSON * const object, const char * const string), object, string)
PUB_VIEW(cJSON_GetObjectItemCaseSensitive, (const cJSON * const object, const char * const string), object, string)
#endif
#ifdef VF_PUBVIEW_Detach
PUB_VIEW(cJSON_DetachItemFromArray, (cJSON *array, int which), array, (size_t)which)
PUB_VIEW(cJSON_DetachItemFromObject, (cJSON *object, const char *string), object, string)
PUB_VIEW(cJSON_DetachItemFromObjectCaseSensitive, (cJSON *object, const char *string), object, string)
#endif
#endif

CJSON_PUBLIC(cJSON_bool) cJSON_AddItemToArray(cJSON *array, cJSON *item)
__CPROVER_requires(g_aita_calls == 0 && (array == NULL || __CPROVER_is_fresh(array, sizeof(cJSON))) && (item == NULL || item == array || __CPROVER_is_fresh(item, sizeof(cJSON))))
__CPROVER_ensures(g_aita_calls == 1 && g_aita_array == array && g_aita_item == item && RET == g_aita_ret) /*@C06*/
__CPROVER_assigns(GHOST_AITA; array != NULL && item != NULL && array != item: array->child, item->next, item->prev);
#define AITO_WRAPPER(fn, constkey) \
CJSON_PUBLIC(cJSON_bool) fn(cJSON *object, const char *string, cJSON *item) \
__CPROVER_requires(g_aito_calls == 0 && (object == NULL || __CPROVER_is_fresh(object, sizeof(cJSON))) && (item == NULL || item == object || __CPROVER_is_fresh(item, sizeof(cJSON)))) \
__CPROVER_ensures(g_aito_calls == 1 && g_aito_object == object && g_aito_string == string && g_aito_item == item && g_aito_hooks == &global_hooks && g_aito_const == (constkey) && RET == g_aito_ret) /*@C06 C14*/ \
__CPROVER_assigns(GHOST_AITO, GHOST_ALLOC; !(object == NULL || string == NULL || item == NULL || object == item): item->string, item->type, item->next, item->prev, object->child);
AITO_WRAPPER(cJSON_AddItemToObject, 0)
AITO_WRAPPER(cJSON_AddItemToObjectCS, 1)

CJSON_PUBLIC(cJSON *) cJSON_GetArrayItem(const cJSON *array, int index)
__CPROVER_requires(g_gai_calls == 0)
__CPROVER_ensures(index < 0 ? (RET == NULL && g_gai_calls == 0) : (g_gai_calls == 1 && g_gai_array == array && g_gai_index == (size_t)index && RET == g_gai_ret)) /*@C06*/
__CPROVER_assigns(g_gai_array, g_gai_index, g_gai_calls);
#ifndef VF_PUBVIEW_GetObjectItem
#define GOI_WRAPPER(fn, cs) \
CJSON_PUBLIC(cJSON *) fn(const cJSON * const object, const char * const string) \
__CPROVER_requires(g_goi_calls == 0 && (string == NULL || STR(string, g_str_n))) \
__CPROVER_ensures(g_goi_calls == 1 && g_goi_object == object && g_goi_name == string && g_goi_cs == (cs) && RET == g_goi_ret) /*@C06*/ \
__CPROVER_assigns(GHOST_GOI);
GOI_WRAPPER(cJSON_GetObjectItem, 0)
GOI_WRAPPER(cJSON_GetObjectItemCaseSensitive, 1)
#endif
#ifndef VF_PUBVIEW_Detach
CJSON_PUBLIC(cJSON *) cJSON_DetachItemFromArray(cJSON *array, int which)
__CPROVER_requires(g_gai_calls == 0 && g_fwd.dvp_calls == 0)
__CPROVER_ensures(which < 0 ? (RET == NULL && g_gai_calls == 0 && g_fwd.dvp_calls == 0) : (g_gai_calls == 1 && g_gai_array == array && g_gai_index == (size_t)which && g_fwd.dvp_calls == 1 && g_fwd.dvp_parent == array && g_fwd.dvp_item == g_gai_ret && RET == g_fwd.dvp_ret)) /*@C06*/
__CPROVER_assigns(g_gai_array, g_gai_index, g_gai_calls, g_fwd);
#define DFO_WRAPPER(fn) \
CJSON_PUBLIC(cJSON *) fn(cJSON *object, const char *string) \
__CPROVER_requires(g_fwp.pub_calls == 0 && g_fwd.dvp_calls == 0) \
__CPROVER_ensures(g_fwp.pub_calls == 1 && g_fwp.pub_a == (const void*)object && g_fwp.pub_b == (const void*)string && g_fwd.dvp_calls == 1 && g_fwd.dvp_parent == object && g_fwd.dvp_item == g_fwp.pub_ret && RET == g_fwd.dvp_ret) /*@C06*/ \
__CPROVER_assigns(g_fwp, g_fwd);
DFO_WRAPPER(cJSON_DetachItemFromObject)
DFO_WRAPPER(cJSON_DetachItemFromObjectCaseSensitive)
#endif
/* Delete-from-container wrappers: detach through the matching public function, then delete exactly what was detached */
#define DEL_WRAPPER(fn, params, a, b) \
CJSON_PUBLIC(void) fn params \
__CPROVER_requires(g_fwp.pub_calls == 0 && g_del_calls == 0 && HOOKS_OK(global_hooks)) \
__CPROVER_ensures(g_fwp.pub_calls == 1 && g_fwp.pub_a == (const void*)(a) && g_fwp.pub_b == (const void*)(b) && g_del_calls == 1 && g_del_arg == g_fwp.pub_ret) /*@C06 C07*/ \
__CPROVER_assigns(g_fwp, GHOST_DEL, GHOST_ALLOC);
#ifdef VF_PUBVIEW_Detach
DEL_WRAPPER(cJSON_DeleteItemFromArray, (cJSON *array, int which), array, (size_t)which)
DEL_WRAPPER(cJSON_DeleteItemFromObject, (cJSON *object, const char *string), object, string)
DEL_WRAPPER(cJSON_DeleteItemFromObjectCaseSensitive, (cJSON *object, const char *string), object, string)
#endif
CJSON_PUBLIC(cJSON_bool) cJSON_ReplaceItemInArray(cJSON *array, int which, cJSON *newitem)
__CPROVER_requires(g_gai_calls == 0 && g_rvp_calls == 0 && (newitem == NULL || __CPROVER_is_fresh(newitem, sizeof(cJSON))))
__CPROVER_ensures(which < 0 ? (!RET && g_gai_calls == 0 && g_rvp_calls == 0) : (g_gai_calls == 1 && g_gai_array == array && g_gai_index == (size_t)which && g_rvp_calls == 1 && g_rvp_parent == array && g_rvp_item == g_gai_ret && g_rvp_repl == newitem && RET == g_rvp_ret)) /*@C06*/
__CPROVER_assigns(g_gai_array, g_gai_index, g_gai_calls, GHOST_RVP, GHOST_ALLOC; newitem != NULL: newitem->next, newitem->prev);
#define RIO_WRAPPER(fn, cs) \
CJSON_PUBLIC(cJSON_bool) fn(cJSON *object, const char *string, cJSON *newitem) \
__CPROVER_requires(g_fwr.rio_calls == 0) \
__CPROVER_ensures(g_fwr.rio_calls == 1 && g_fwr.rio_object == object && g_fwr.rio_string == string && g_fwr.rio_repl == newitem && g_fwr.rio_cs == (cs) && RET == g_fwr.rio_ret) /*@C06*/ \
__CPROVER_assigns(g_fwr, GHOST_ALLOC);
RIO_WRAPPER(cJSON_ReplaceItemInObject, 0)
RIO_WRAPPER(cJSON_ReplaceItemInObjectCaseSensitive, 1)
