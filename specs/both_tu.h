/* One translation unit holding BOTH library files, for bounded units that run the utilities on top of the real core functions.
 * cJSON.c and cJSON_Utils.c each define file-local helpers named compare_double, get_array_item and get_object_item; the three
 * names are renamed consistently inside cJSON_Utils.c by the preprocessor (utils_*).  Nothing else differs from the separate TUs. */
#ifndef VF_BOTH_TU_H
#define VF_BOTH_TU_H
#include "cjson_tu.h"
#define compare_double utils_compare_double
#define get_array_item utils_get_array_item
#define get_object_item utils_get_object_item
#define malloc vf_libc_malloc
#define free vf_libc_free
#define realloc vf_libc_realloc
#include "cJSON_Utils.c"
#undef malloc
#undef free
#undef realloc
#undef compare_double
#undef get_array_item
#undef get_object_item
#endif
