/* Contracts on the real functions of cJSON.c, as re-declarations after the definition.
 * A trailing tag comment on an ensures line names the properties that clause decides. */
#ifndef VF_CONTRACTS_CJSON_H
#define VF_CONTRACTS_CJSON_H

/* ------------------------------------------------------------------ parse_hex4 */
static unsigned parse_hex4(const unsigned char * const input)
__CPROVER_requires(__CPROVER_is_fresh(input, 4))
__CPROVER_ensures(HEX4_OK(input) ==> __CPROVER_return_value == HEX4_VAL(input)) /*@C02*/
__CPROVER_ensures(!HEX4_OK(input) ==> __CPROVER_return_value == 0) /*@C03*/
__CPROVER_ensures(__CPROVER_return_value <= 0xFFFF) /*@C01 C02*/
__CPROVER_assigns();

/* ------------------------------------------------------------------ utf16_literal_to_utf8
 * input: n readable bytes starting at the backslash of \uXXXX (the caller has checked in[0..1]); output: 4 writable bytes.
 * The expected result is computed by a pure spec function written from RFC 8259 section 7 / RFC 3629, not from the code. */
size_t g_u16_n;   /* ghost: length of the readable input window (fixed by the harness, arbitrary) */
#define VF_U16_N g_u16_n
struct u16_spec { unsigned char ret; unsigned char len; unsigned char b[4]; };
static struct u16_spec spec_utf16(const unsigned char *in, size_t n)
{
    struct u16_spec r = { 0, 0, { 0, 0, 0, 0 } };
    unsigned long cp; unsigned c1, c2;
    if (n < 6 || !HEX4_OK(in + 2)) { return r; }               /* truncated, or not four hex digits */
    c1 = HEX4_VAL(in + 2);
    if (c1 >= 0xDC00 && c1 <= 0xDFFF) { return r; }            /* lone low surrogate */
    if (c1 >= 0xD800 && c1 <= 0xDBFF)
    {
        if (n < 12 || in[6] != '\\' || in[7] != 'u' || !HEX4_OK(in + 8)) { return r; }
        c2 = HEX4_VAL(in + 8);
        if (c2 < 0xDC00 || c2 > 0xDFFF) { return r; }          /* high surrogate without its low half */
        cp = 0x10000UL + (((unsigned long)(c1 - 0xD800) << 10) | (c2 - 0xDC00));
        r.ret = 12;
    }
    else { cp = c1; r.ret = 6; }
    if (cp < 0x80) { r.len = 1; r.b[0] = (unsigned char)cp; }
    else if (cp < 0x800) { r.len = 2; r.b[0] = (unsigned char)(0xC0 | (cp >> 6)); r.b[1] = (unsigned char)(0x80 | (cp & 0x3F)); }
    else if (cp < 0x10000) { r.len = 3; r.b[0] = (unsigned char)(0xE0 | (cp >> 12)); r.b[1] = (unsigned char)(0x80 | ((cp >> 6) & 0x3F)); r.b[2] = (unsigned char)(0x80 | (cp & 0x3F)); }
    else { r.len = 4; r.b[0] = (unsigned char)(0xF0 | (cp >> 18)); r.b[1] = (unsigned char)(0x80 | ((cp >> 12) & 0x3F)); r.b[2] = (unsigned char)(0x80 | ((cp >> 6) & 0x3F)); r.b[3] = (unsigned char)(0x80 | (cp & 0x3F)); }
    return r;
}
static unsigned char utf16_literal_to_utf8(const unsigned char * const input_pointer, const unsigned char * const input_end, unsigned char **output_pointer)
__CPROVER_requires(__CPROVER_is_fresh(input_pointer, VF_U16_N) && input_end == input_pointer + VF_U16_N)
__CPROVER_requires(__CPROVER_is_fresh(output_pointer, sizeof(*output_pointer)) && __CPROVER_is_fresh(*output_pointer, 4))
__CPROVER_ensures(__CPROVER_return_value == spec_utf16(input_pointer, VF_U16_N).ret) /*@C02 C03*/
__CPROVER_ensures(__CPROVER_return_value == 0 ==> *output_pointer == __CPROVER_old(*output_pointer)) /*@C01 C03*/
__CPROVER_ensures(__CPROVER_return_value != 0 ==> *output_pointer == __CPROVER_old(*output_pointer) + spec_utf16(input_pointer, VF_U16_N).len) /*@C02*/
__CPROVER_ensures(__CPROVER_return_value != 0 ==> __CPROVER_old(*output_pointer)[0] == spec_utf16(input_pointer, VF_U16_N).b[0]) /*@C02*/
__CPROVER_ensures((__CPROVER_return_value != 0 && spec_utf16(input_pointer, VF_U16_N).len >= 2) ==> __CPROVER_old(*output_pointer)[1] == spec_utf16(input_pointer, VF_U16_N).b[1]) /*@C02*/
__CPROVER_ensures((__CPROVER_return_value != 0 && spec_utf16(input_pointer, VF_U16_N).len >= 3) ==> __CPROVER_old(*output_pointer)[2] == spec_utf16(input_pointer, VF_U16_N).b[2]) /*@C02*/
__CPROVER_ensures((__CPROVER_return_value != 0 && spec_utf16(input_pointer, VF_U16_N).len >= 4) ==> __CPROVER_old(*output_pointer)[3] == spec_utf16(input_pointer, VF_U16_N).b[3]) /*@C02*/
__CPROVER_assigns(*output_pointer, __CPROVER_object_whole(*output_pointer));

/* ------------------------------------------------------------------ compare_double (same text in cJSON_Utils.c)
 * property C12: "numbers equal within relative DBL_EPSILON (a finite number never equals an infinite or NaN one)" */
#define FIN(x) __CPROVER_isfinited(x)
#define DMAXABS(a, b) (__CPROVER_fabs(a) > __CPROVER_fabs(b) ? __CPROVER_fabs(a) : __CPROVER_fabs(b))
#define SPEC_DEQ(a, b) (FIN(a) && FIN(b) && __CPROVER_fabs((a) - (b)) <= DMAXABS(a, b) * DBL_EPSILON)
static cJSON_bool compare_double(double a, double b)
__CPROVER_ensures((FIN(a) && FIN(b)) ==> (__CPROVER_return_value != 0) == SPEC_DEQ(a, b)) /*@C12 C04*/
__CPROVER_ensures((FIN(a) != FIN(b)) ==> __CPROVER_return_value == 0) /*@C12 C04*/
__CPROVER_ensures((__CPROVER_isnand(a) || __CPROVER_isnand(b)) ==> __CPROVER_return_value == 0) /*@C12*/
__CPROVER_ensures(__CPROVER_return_value == 0 || __CPROVER_return_value == 1) /*@C12*/
__CPROVER_assigns();

/* ------------------------------------------------------------------ buffer_skip_whitespace (loop contract in loops.tbl)
 * skips exactly the maximal run of bytes <= 0x20 (the lenient whitespace of C03); if that run reaches the end of the
 * buffer the offset is left on the last byte */
static parse_buffer *buffer_skip_whitespace(parse_buffer * const buffer)
__CPROVER_requires(buffer == NULL || (__CPROVER_is_fresh(buffer, sizeof(*buffer)) &&
    (buffer->content == NULL || (buffer->length <= VF_MAXLEN && __CPROVER_is_fresh(buffer->content, buffer->length) && buffer->offset <= buffer->length))))
__CPROVER_ensures((buffer == NULL || buffer->content == NULL) ==> __CPROVER_return_value == NULL) /*@C01*/
__CPROVER_ensures((buffer != NULL && buffer->content != NULL) ==> (__CPROVER_return_value == buffer && buffer->offset >= __CPROVER_old(buffer->offset) && buffer->offset <= buffer->length)) /*@C01*/
__CPROVER_ensures((buffer != NULL && buffer->content != NULL && __CPROVER_old(buffer->offset) < buffer->length) ==> buffer->offset < buffer->length) /*@C01 C10*/
__CPROVER_ensures((buffer != NULL && buffer->content != NULL && __CPROVER_old(buffer->offset) >= buffer->length) ==> buffer->offset == __CPROVER_old(buffer->offset)) /*@C01*/
/* everything skipped is whitespace (pointwise at the arbitrary index g_k) */
__CPROVER_ensures((buffer != NULL && buffer->content != NULL && g_k >= __CPROVER_old(buffer->offset) && g_k < buffer->offset) ==> buffer->content[g_k] <= 32) /*@C02 C03 C10*/
/* and it stops at the first non-whitespace byte, or on the last byte of the buffer */
__CPROVER_ensures((buffer != NULL && buffer->content != NULL && __CPROVER_old(buffer->offset) < buffer->length) ==> (buffer->content[buffer->offset] > 32 || buffer->offset == buffer->length - 1)) /*@C02 C03 C10*/
__CPROVER_assigns(buffer != NULL && buffer->content != NULL: buffer->offset);

/* ------------------------------------------------------------------ skip_utf8_bom */
#define HAS_BOM(b) ((b)->length >= 4 && (b)->content[0] == 0xEF && (b)->content[1] == 0xBB && (b)->content[2] == 0xBF)
static parse_buffer *skip_utf8_bom(parse_buffer * const buffer)
__CPROVER_requires(buffer == NULL || (__CPROVER_is_fresh(buffer, sizeof(*buffer)) &&
    (buffer->content == NULL || (buffer->length <= VF_MAXLEN && __CPROVER_is_fresh(buffer->content, buffer->length) && buffer->offset <= buffer->length))))
__CPROVER_ensures((buffer == NULL || buffer->content == NULL || __CPROVER_old(buffer->offset) != 0) ==> __CPROVER_return_value == NULL) /*@C01*/
__CPROVER_ensures((buffer != NULL && buffer->content != NULL && __CPROVER_old(buffer->offset) == 0) ==> __CPROVER_return_value == buffer) /*@C01*/
/* a BOM followed by at least one byte is skipped (C02: "a leading UTF-8 BOM", exact-length buffers included) */
__CPROVER_ensures((__CPROVER_return_value != NULL && HAS_BOM(buffer)) ==> buffer->offset == 3) /*@C02*/
/* nothing else is skipped */
__CPROVER_ensures((__CPROVER_return_value != NULL && !(buffer->length >= 3 && buffer->content[0] == 0xEF && buffer->content[1] == 0xBB && buffer->content[2] == 0xBF)) ==> buffer->offset == 0) /*@C02 C03*/
__CPROVER_ensures(__CPROVER_return_value != NULL ==> (buffer->offset == 0 || buffer->offset == 3) && buffer->offset <= buffer->length) /*@C01*/
__CPROVER_assigns(buffer != NULL && buffer->content != NULL: buffer->offset);

/* ------------------------------------------------------------------ parse_number   (loop contract in loops.tbl)
 * The candidate token handed to strtod is exactly the maximal run (<= 63 bytes, inside the buffer) of bytes in [0-9+-eE.],
 * with '.' translated to the locale's point; the accepted token is the prefix strtod consumes (grammar in models.h: vf_numlen). */
#define SAT_INT(d) ((d) >= INT_MAX ? INT_MAX : ((d) <= (double)INT_MIN ? INT_MIN : (int)(d)))
#define PB_NULLTOL(b) ((b) == NULL || (__CPROVER_is_fresh((b), sizeof(parse_buffer)) && \
    ((b)->content == NULL || ((b)->length <= VF_MAXLEN && __CPROVER_is_fresh((b)->content, (b)->length) && (b)->offset <= (b)->length))))
#define PB_USABLE(b) ((b) != NULL && (b)->content != NULL)
#define LOCALE_OK (vf_lconv.decimal_point == vf_dp && vf_dp[1] == 0 && (VF_DECIMAL_POINT == '.' || VF_DECIMAL_POINT == ',' || VF_DECIMAL_POINT == 0xd9))
#define PN_OLD_OFF __CPROVER_old(input_buffer->offset)
static cJSON_bool parse_number(cJSON * const item, parse_buffer * const input_buffer)
__CPROVER_requires(__CPROVER_is_fresh(item, sizeof(cJSON)) && PB_NULLTOL(input_buffer) && LOCALE_OK)
__CPROVER_ensures(!PB_USABLE(input_buffer) ==> !__CPROVER_return_value) /*@C01*/
/* candidate token: maximal run of number bytes */
__CPROVER_ensures(PB_USABLE(input_buffer) ==> (g_strtod_len <= 63 && g_strtod_len <= input_buffer->length - PN_OLD_OFF)) /*@C01 C02 C03*/
__CPROVER_ensures((PB_USABLE(input_buffer) && g_k < g_strtod_len) ==> (NUM_CHAR(input_buffer->content[PN_OLD_OFF + g_k]) &&
    g_strtod_at_k == (input_buffer->content[PN_OLD_OFF + g_k] == '.' ? VF_DECIMAL_POINT : input_buffer->content[PN_OLD_OFF + g_k]))) /*@C02 C03*/
__CPROVER_ensures(PB_USABLE(input_buffer) ==> (g_strtod_len == 63 || g_strtod_len == input_buffer->length - PN_OLD_OFF || !NUM_CHAR(input_buffer->content[PN_OLD_OFF + g_strtod_len]))) /*@C02 C03*/
/* accepted iff strtod converts something; the offset advances by exactly what it consumed */
__CPROVER_ensures(PB_USABLE(input_buffer) ==> ((__CPROVER_return_value != 0) == (g_strtod_consumed > 0) && input_buffer->offset == PN_OLD_OFF + g_strtod_consumed && g_strtod_consumed <= g_strtod_len)) /*@C01 C02 C03 C10*/
__CPROVER_ensures(!__CPROVER_return_value ==> (item->type == __CPROVER_old(item->type) && item->valueint == __CPROVER_old(item->valueint) && item->valuedouble == __CPROVER_old(item->valuedouble))) /*@C03*/
__CPROVER_ensures(__CPROVER_return_value ==> (item->type == cJSON_Number && item->valuedouble == g_strtod_value && item->valueint == SAT_INT(g_strtod_value))) /*@C02*/
__CPROVER_ensures(PB_USABLE(input_buffer) ==> (input_buffer->offset <= input_buffer->length && input_buffer->content == __CPROVER_old(input_buffer->content) && input_buffer->length == __CPROVER_old(input_buffer->length))) /*@C01*/
__CPROVER_assigns(item->type, item->valueint, item->valuedouble, GHOST_STRTOD; PB_USABLE(input_buffer): input_buffer->offset);

/* ================================================================== views and ghost logs (DESIGN 1.3/1.4)
 * A unit is compiled with -DVF_ENF_<f> for the function f it enforces.  For tree-building functions the success-case
 * leak clause has two views: the ENFORCED view names the blocks f itself attached (g_live may be one of them); the CALLEE
 * view used when f is replaced at a call site says g_live is unchanged, i.e. blocks f attached below the node it was given
 * are owned by that node's subtree and their release is cJSON_Delete's obligation (composition lemma, DESIGN 1.4).
 * g_disp/g_disp_ret/g_pv_end log which delegate a replaced callee was and what it answered (ghost only). */
enum { D_NONE = 0, D_STRING = 1, D_NUMBER = 2, D_ARRAY = 3, D_OBJECT = 4, D_VALUE = 5 };
struct vf_log_ghost { int disp; cJSON_bool disp_ret; size_t pv_end; } g_lg;
#define g_disp g_lg.disp
#define g_disp_ret g_lg.disp_ret
#define g_pv_end g_lg.pv_end
#define GHOST_LOG g_lg
#define LOGGED(tag, buf) (g_disp == (tag) && g_disp_ret == __CPROVER_return_value && g_pv_end == (buf)->offset)
#define LIVE_SAME (g_live == __CPROVER_old(g_live))

/* what every parse function guarantees about its buffer and item (derived from the code, checked for each) */
#define PARSE_COMMON(item, b) \
    __CPROVER_ensures(PB_SAME(b) && (__CPROVER_return_value ? (b)->depth == __CPROVER_old((b)->depth) : (b)->depth >= __CPROVER_old((b)->depth))) /*@C01 C02 C04 C10*/ \
    __CPROVER_ensures(__CPROVER_return_value ==> (b)->offset > __CPROVER_old((b)->offset)) /*@C01*/ \
    __CPROVER_ensures(!__CPROVER_return_value ==> ((item)->type == __CPROVER_old((item)->type) && (item)->valuestring == __CPROVER_old((item)->valuestring) && \
        (item)->child == __CPROVER_old((item)->child) && (item)->valueint == __CPROVER_old((item)->valueint))) /*@C03*/ \
    __CPROVER_ensures(!__CPROVER_return_value ==> LIVE_SAME) /*@C01 C03 C08*/ \
    __CPROVER_ensures(C14_POST((b)->hooks)) /*@C14*/
/* item fields child..valuedouble are contiguous: one target (next, prev and string stay outside the frame) */
#define ITEM_VALUE_FIELDS(item) __CPROVER_object_upto(&(item)->child, offsetof(cJSON, string) - offsetof(cJSON, child))
#define PARSE_ASSIGNS(item, b) ITEM_VALUE_FIELDS(item), (b)->offset, (b)->depth, GHOST_ALLOC, GHOST_STRTOD, GHOST_LOG

/* ------------------------------------------------------------------ callee views of the sub-parsers (replaced in parse_value) */
#if !defined(VF_ENF_parse_string) && !defined(VF_CONTAINER_VIEWS)
/* parse_string reads the byte at the offset unchecked: a caller must have made sure there is one (C01) */
static cJSON_bool parse_string(cJSON * const item, parse_buffer * const input_buffer)
__CPROVER_requires(__CPROVER_is_fresh(item, sizeof(cJSON)) && PB_FRESH(input_buffer) && input_buffer->offset < input_buffer->length)
PARSE_COMMON(item, input_buffer)
__CPROVER_ensures(__CPROVER_return_value ==> (item->type == cJSON_String && __CPROVER_is_fresh(item->valuestring, 1) && item->child == __CPROVER_old(item->child)))
__CPROVER_ensures(__CPROVER_return_value ==> LIVE_SAME)
__CPROVER_ensures(LOGGED(D_STRING, input_buffer))
__CPROVER_assigns(PARSE_ASSIGNS(item, input_buffer));
#endif

#if !defined(VF_ENF_parse_array) && !defined(VF_CONTAINER_VIEWS)
static cJSON_bool parse_array(cJSON * const item, parse_buffer * const input_buffer)
__CPROVER_requires(__CPROVER_is_fresh(item, sizeof(cJSON)) && PB_FRESH(input_buffer) && input_buffer->offset < input_buffer->length)
PARSE_COMMON(item, input_buffer)
__CPROVER_ensures(__CPROVER_return_value ==> (item->type == cJSON_Array && item->valuestring == __CPROVER_old(item->valuestring)))
__CPROVER_ensures(__CPROVER_return_value ==> LIVE_SAME)
__CPROVER_ensures(LOGGED(D_ARRAY, input_buffer))
__CPROVER_assigns(PARSE_ASSIGNS(item, input_buffer));
#endif

#if !defined(VF_ENF_parse_object) && !defined(VF_CONTAINER_VIEWS)
static cJSON_bool parse_object(cJSON * const item, parse_buffer * const input_buffer)
__CPROVER_requires(__CPROVER_is_fresh(item, sizeof(cJSON)) && PB_FRESH(input_buffer))
PARSE_COMMON(item, input_buffer)
__CPROVER_ensures(__CPROVER_return_value ==> (item->type == cJSON_Object && item->valuestring == __CPROVER_old(item->valuestring)))
__CPROVER_ensures(__CPROVER_return_value ==> LIVE_SAME)
__CPROVER_ensures(LOGGED(D_OBJECT, input_buffer))
__CPROVER_assigns(PARSE_ASSIGNS(item, input_buffer));
#endif

/* parse_number as a callee: the subset of its proved contract that parse_value needs, plus the log */
#ifdef VF_ENF_parse_value
static cJSON_bool parse_number_cv(cJSON * const item, parse_buffer * const input_buffer)
__CPROVER_requires(__CPROVER_is_fresh(item, sizeof(cJSON)) && PB_FRESH(input_buffer))
PARSE_COMMON(item, input_buffer)
__CPROVER_ensures(__CPROVER_return_value ==> (item->type == cJSON_Number && item->valuestring == __CPROVER_old(item->valuestring) && item->child == __CPROVER_old(item->child)))
__CPROVER_ensures(!__CPROVER_return_value ==> input_buffer->offset == __CPROVER_old(input_buffer->offset))
__CPROVER_ensures(LIVE_SAME && g_hook_allocs == __CPROVER_old(g_hook_allocs))
__CPROVER_ensures(LOGGED(D_NUMBER, input_buffer))
__CPROVER_assigns(PARSE_ASSIGNS(item, input_buffer));
#endif

/* ------------------------------------------------------------------ parse_value */
#define AT(b, i) ((b)->content[__CPROVER_old((b)->offset) + (i)])
#define ROOM(b, n) (__CPROVER_old((b)->offset) + (n) <= (b)->length)
#define LIT_NULL(b)  (ROOM(b, 4) && AT(b,0) == 'n' && AT(b,1) == 'u' && AT(b,2) == 'l' && AT(b,3) == 'l')
#define LIT_TRUE(b)  (ROOM(b, 4) && AT(b,0) == 't' && AT(b,1) == 'r' && AT(b,2) == 'u' && AT(b,3) == 'e')
#define LIT_FALSE(b) (ROOM(b, 5) && AT(b,0) == 'f' && AT(b,1) == 'a' && AT(b,2) == 'l' && AT(b,3) == 's' && AT(b,4) == 'e')
#define FIRST_IS(b, c) (ROOM(b, 1) && AT(b,0) == (c))
#define FIRST_NUM(b) (ROOM(b, 1) && (AT(b,0) == '-' || (AT(b,0) >= '0' && AT(b,0) <= '9')))
#define OTHERS_KEPT(item) ((item)->valuestring == __CPROVER_old((item)->valuestring) && (item)->child == __CPROVER_old((item)->child))
#ifndef VF_CONTAINER_VIEWS
static cJSON_bool parse_value(cJSON * const item, parse_buffer * const input_buffer)
__CPROVER_requires(__CPROVER_is_fresh(item, sizeof(cJSON)) && PB_FRESH(input_buffer))
PARSE_COMMON(item, input_buffer)
#ifdef VF_ENF_parse_value
/* the three literals have their own types and consume exactly their spelling (C02); true also sets the integer view */
__CPROVER_ensures(LIT_NULL(input_buffer)  ==> (__CPROVER_return_value && item->type == cJSON_NULL  && input_buffer->offset == __CPROVER_old(input_buffer->offset) + 4 && OTHERS_KEPT(item))) /*@C02*/
__CPROVER_ensures(LIT_FALSE(input_buffer) ==> (__CPROVER_return_value && item->type == cJSON_False && input_buffer->offset == __CPROVER_old(input_buffer->offset) + 5 && OTHERS_KEPT(item))) /*@C02*/
__CPROVER_ensures(LIT_TRUE(input_buffer)  ==> (__CPROVER_return_value && item->type == cJSON_True  && input_buffer->offset == __CPROVER_old(input_buffer->offset) + 4 && OTHERS_KEPT(item))) /*@C02*/
/* every other production is chosen by its first byte and its verdict is passed on unchanged */
__CPROVER_ensures(FIRST_IS(input_buffer, '\"') ==> (g_disp == D_STRING && __CPROVER_return_value == g_disp_ret && input_buffer->offset == g_pv_end)) /*@C02 C03*/
__CPROVER_ensures(FIRST_NUM(input_buffer)      ==> (g_disp == D_NUMBER && __CPROVER_return_value == g_disp_ret && input_buffer->offset == g_pv_end)) /*@C02 C03*/
__CPROVER_ensures(FIRST_IS(input_buffer, '[')  ==> (g_disp == D_ARRAY  && __CPROVER_return_value == g_disp_ret && input_buffer->offset == g_pv_end)) /*@C02 C03*/
__CPROVER_ensures(FIRST_IS(input_buffer, '{')  ==> (g_disp == D_OBJECT && __CPROVER_return_value == g_disp_ret && input_buffer->offset == g_pv_end)) /*@C02 C03*/
/* anything else - misspelt or wrongly cased literals, stray bytes, end of input - is rejected without consuming (C03) */
__CPROVER_ensures((!LIT_NULL(input_buffer) && !LIT_FALSE(input_buffer) && !LIT_TRUE(input_buffer) && !FIRST_IS(input_buffer, '\"') && !FIRST_NUM(input_buffer) &&
    !FIRST_IS(input_buffer, '[') && !FIRST_IS(input_buffer, '{')) ==> (!__CPROVER_return_value && input_buffer->offset == __CPROVER_old(input_buffer->offset) && g_disp == D_NONE)) /*@C03*/
#else
__CPROVER_ensures(LOGGED(D_VALUE, input_buffer))
#endif
__CPROVER_ensures(__CPROVER_return_value ==> LIVE_SAME) /*@C01 C08*/
__CPROVER_assigns(PARSE_ASSIGNS(item, input_buffer));
#endif

/* ------------------------------------------------------------------ cJSON_Delete, callee view for a single root node
 * (the enforced, per-node contract is proved in the unit cJSON_Delete; see c_tree section) */
struct vf_del_ghost { cJSON * del_arg; size_t del_calls; } g_dl;
#define g_del_arg g_dl.del_arg
#define g_del_calls g_dl.del_calls
#define GHOST_DEL g_dl
#ifndef VF_ENF_cJSON_Delete
CJSON_PUBLIC(void) cJSON_Delete(cJSON *item)
__CPROVER_requires(item == NULL || __CPROVER_rw_ok(item, sizeof(cJSON)))
__CPROVER_requires(HOOKS_OK(global_hooks))
__CPROVER_ensures(g_live == ((__CPROVER_old(g_live) == (void*)item) ? NULL : __CPROVER_old(g_live)))
__CPROVER_ensures(C14_POST(global_hooks))
__CPROVER_ensures(g_del_arg == item && g_del_calls == __CPROVER_old(g_del_calls) + 1)
__CPROVER_assigns(GHOST_ALLOC, GHOST_DEL)
__CPROVER_frees(item != NULL: item);
#endif

/* ------------------------------------------------------------------ cJSON_ParseWithLengthOpts  (C10, C01, C03, C08, C14)
 * value: exactly buffer_length readable bytes (a read of byte buffer_length is out of bounds); never written (not in assigns). */
struct vf_pl_ghost { const char *value; size_t len; const char **rpe; cJSON_bool rnt; cJSON *ret; size_t calls; } g_plg;   /* ghost log of calls */
#define g_pl_value g_plg.value
#define g_pl_len g_plg.len
#define g_pl_rpe g_plg.rpe
#define g_pl_rnt g_plg.rnt
#define g_pl_ret g_plg.ret
#define g_pl_calls g_plg.calls
#define GHOST_PL g_plg
const char *g_po_value; const char **g_po_rpe; cJSON_bool g_po_rnt; cJSON *g_po_ret; size_t g_po_calls;
#define GHOST_PO g_po_value, g_po_rpe, g_po_rnt, g_po_ret, g_po_calls
size_t g_str_n;   /* ghost: size of the object holding a string argument (arbitrary, fixed by the harness) */
#define PE (*return_parse_end)
#define GE_POS global_error.position
#define UVAL ((const unsigned char*)value)
CJSON_PUBLIC(cJSON *) cJSON_ParseWithLengthOpts(const char *value, size_t buffer_length, const char **return_parse_end, cJSON_bool require_null_terminated)
__CPROVER_requires(buffer_length <= VF_MAXLEN && (value == NULL || __CPROVER_is_fresh(value, buffer_length)))
__CPROVER_requires(return_parse_end == NULL || __CPROVER_is_fresh(return_parse_end, sizeof(*return_parse_end)))
__CPROVER_requires(HOOKS_OK(global_hooks))
#ifdef VF_ENF_cJSON_ParseWithLengthOpts
__CPROVER_requires(g_del_calls == 0)
__CPROVER_ensures((value == NULL || buffer_length == 0) ==> __CPROVER_return_value == NULL) /*@C01 C03*/
/* failure: error pointer and reported position agree and lie inside the buffer, never past its last byte.
 * (C20: the function body runs under the interference model of annotate rule R6 - every read of the shared error record and every call of
 * cJSON_GetErrorPtr inside the library yields an arbitrary value - so what the caller gets back through return value and parse end
 * provably does not depend on what other threads store there; the clauses on the caller-visible results carry the C20 tag.) */
__CPROVER_ensures((__CPROVER_return_value == NULL && value != NULL) ==> (global_error.json == UVAL && (buffer_length == 0 ? GE_POS == 0 : GE_POS < buffer_length))) /*@C10*/
__CPROVER_ensures((__CPROVER_return_value == NULL && value != NULL && return_parse_end != NULL) ==> PE == value + GE_POS) /*@C10 C20*/
/* success: global error pointer NULL, parse end inside [value, value+len] */
__CPROVER_ensures(__CPROVER_return_value != NULL ==> (global_error.json == NULL && GE_POS == 0)) /*@C10*/
__CPROVER_ensures((__CPROVER_return_value != NULL && return_parse_end != NULL) ==> (__CPROVER_same_object(PE, value) && PE >= value && PE <= value + buffer_length)) /*@C10 C20*/
/* the value parser's verdict decides, and without the termination requirement the parse end is where the value ended */
__CPROVER_ensures((value != NULL && buffer_length > 0 && g_disp == D_VALUE && !g_disp_ret) ==> __CPROVER_return_value == NULL) /*@C03 C10*/
__CPROVER_ensures((g_disp == D_VALUE && g_disp_ret && !require_null_terminated) ==> (__CPROVER_return_value != NULL && (return_parse_end == NULL || PE == value + g_pv_end))) /*@C02 C10 C20*/
/* termination required: success => parse end designates a zero byte inside the buffer and only bytes <= 0x20 lie between the value and it */
__CPROVER_ensures((__CPROVER_return_value != NULL && return_parse_end != NULL && require_null_terminated) ==> (PE < value + buffer_length && *PE == '\0' && PE >= value + g_pv_end)) /*@C10 C20*/
__CPROVER_ensures((__CPROVER_return_value != NULL && return_parse_end != NULL && require_null_terminated && g_k >= g_pv_end && g_k < buffer_length && g_k < (size_t)(PE - value)) ==> UVAL[g_k] <= 32) /*@C10*/
/* termination required: failure after a good value => the error position is a witness: a non-zero byte that is not whitespace, or the last byte */
__CPROVER_ensures((__CPROVER_return_value == NULL && value != NULL && g_disp == D_VALUE && g_disp_ret && require_null_terminated && g_pv_end < buffer_length && GE_POS < buffer_length) ==> (GE_POS >= g_pv_end && UVAL[GE_POS] != 0 && (UVAL[GE_POS] > 32 || GE_POS + 1 == buffer_length))) /*@C10*/
__CPROVER_ensures((g_disp == D_VALUE && g_disp_ret && !require_null_terminated) ==> __CPROVER_return_value != NULL) /*@C10*/
/* the parser is started after the BOM and leading whitespace, at a byte inside the buffer, with depth 0 and the installed hooks: see call-site preconditions */
/* nothing allocated during a failed call remains (C03/C08); result node comes from the hooks (C14) */
__CPROVER_ensures(__CPROVER_return_value == NULL ==> LIVE_SAME) /*@C01 C03 C08*/
__CPROVER_ensures(__CPROVER_return_value != NULL ==> __CPROVER_rw_ok(__CPROVER_return_value, sizeof(cJSON))) /*@C01*/
__CPROVER_ensures(C14_POST(global_hooks)) /*@C14*/
__CPROVER_assigns(global_error, GHOST_ALLOC, GHOST_STRTOD, GHOST_LOG, GHOST_DEL; return_parse_end != NULL: *return_parse_end);
#else   /* callee view for the forwarding entry points: the call is logged, nothing else is needed there */
__CPROVER_ensures(g_pl_value == value && g_pl_len == buffer_length && g_pl_rpe == return_parse_end && g_pl_rnt == require_null_terminated && g_pl_ret == __CPROVER_return_value && g_pl_calls == __CPROVER_old(g_pl_calls) + 1)
__CPROVER_assigns(global_error, GHOST_ALLOC, GHOST_STRTOD, GHOST_LOG, GHOST_PL; return_parse_end != NULL: *return_parse_end);
#endif

/* ------------------------------------------------------------------ the three forwarding entry points (C01/C02: all entry points agree) */
CJSON_PUBLIC(cJSON *) cJSON_ParseWithOpts(const char *value, const char **return_parse_end, cJSON_bool require_null_terminated)
__CPROVER_requires(value == NULL || STR(value, g_str_n))
__CPROVER_requires(return_parse_end == NULL || __CPROVER_is_fresh(return_parse_end, sizeof(*return_parse_end)))
__CPROVER_requires(HOOKS_OK(global_hooks) && g_pl_calls == 0)
#ifndef VF_ENF_cJSON_ParseWithOpts
__CPROVER_ensures(g_po_value == value && g_po_rpe == return_parse_end && g_po_rnt == require_null_terminated && g_po_ret == __CPROVER_return_value && g_po_calls == __CPROVER_old(g_po_calls) + 1)
__CPROVER_assigns(global_error, GHOST_ALLOC, GHOST_STRTOD, GHOST_LOG, GHOST_PL, GHOST_PO; return_parse_end != NULL: *return_parse_end);
#else
__CPROVER_ensures(value == NULL ==> (__CPROVER_return_value == NULL && g_pl_calls == 0)) /*@C01*/
/* forwards the text with its terminating zero included (length strlen+1), the same out-parameter and flag, and returns the result unchanged */
__CPROVER_ensures(value != NULL ==> (g_pl_calls == 1 && g_pl_value == value && g_pl_rpe == return_parse_end && g_pl_rnt == require_null_terminated && g_pl_ret == __CPROVER_return_value)) /*@C01 C02 C10*/
__CPROVER_ensures(value != NULL ==> (g_pl_len >= 1 && g_pl_len <= g_str_n && value[g_pl_len - 1] == 0 && (g_k >= g_pl_len - 1 || value[g_k] != 0))) /*@C01 C02 C10*/
__CPROVER_assigns(global_error, GHOST_ALLOC, GHOST_STRTOD, GHOST_LOG, GHOST_PL; return_parse_end != NULL: *return_parse_end);
#endif

CJSON_PUBLIC(cJSON *) cJSON_Parse(const char *value)
__CPROVER_requires((value == NULL || STR(value, g_str_n)) && HOOKS_OK(global_hooks) && g_pl_calls == 0 && g_po_calls == 0)
/* same parser, no out-parameter, termination not required */
__CPROVER_ensures(g_po_calls == 1 && g_po_value == value && g_po_rpe == NULL && g_po_rnt == 0 && g_po_ret == __CPROVER_return_value) /*@C01 C02*/
__CPROVER_assigns(global_error, GHOST_ALLOC, GHOST_STRTOD, GHOST_LOG, GHOST_PL, GHOST_PO);

CJSON_PUBLIC(cJSON *) cJSON_ParseWithLength(const char *value, size_t buffer_length)
__CPROVER_requires(buffer_length <= VF_MAXLEN && (value == NULL || __CPROVER_is_fresh(value, buffer_length)) && HOOKS_OK(global_hooks) && g_pl_calls == 0)
__CPROVER_ensures(g_pl_calls == 1 && g_pl_value == value && g_pl_len == buffer_length && g_pl_rpe == NULL && g_pl_rnt == 0 && g_pl_ret == __CPROVER_return_value) /*@C01 C02*/
__CPROVER_assigns(global_error, GHOST_ALLOC, GHOST_STRTOD, GHOST_LOG, GHOST_PL);

/* C20 interference model: inside any other library function a call of cJSON_GetErrorPtr yields an arbitrary pointer (another thread may
 * store to the shared error record at any moment); the driver replaces such calls by this view in every contract unit on cJSON.c */
CJSON_PUBLIC(const char *) cJSON_GetErrorPtr_any(void)
__CPROVER_requires(1)
__CPROVER_ensures(1)
__CPROVER_assigns();

CJSON_PUBLIC(const char *) cJSON_GetErrorPtr(void)
__CPROVER_requires(global_error.json == NULL || (__CPROVER_POINTER_OFFSET(global_error.json) == 0 && global_error.position < __CPROVER_OBJECT_SIZE(global_error.json)))
__CPROVER_ensures(global_error.json != NULL ==> __CPROVER_return_value == (const char*)global_error.json + global_error.position) /*@C10*/
__CPROVER_ensures((global_error.json == NULL && global_error.position == 0) ==> __CPROVER_return_value == NULL) /*@C10*/
__CPROVER_assigns();


#include "c_print.h"
#include "c_tree.h"
#include "c_container.h"
#include "c_printcont.h"

#endif
