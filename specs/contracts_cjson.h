/* Contracts on the real functions of cJSON.c, as re-declarations after the definition.
 * A trailing tag comment on an ensures line names the properties that clause decides. */
#ifndef VF_CONTRACTS_CJSON_H
#define VF_CONTRACTS_CJSON_H

/* ------------------------------------------------------------------ parse_hex4 */
static unsigned parse_hex4(const unsigned char * const input)
__CPROVER_requires(__CPROVER_is_fresh(input, 4))
__CPROVER_ensures(HEX4_OK(input) ==> __CPROVER_return_value == HEX4_VAL(input)) /*@C02*/
__CPROVER_ensures(!HEX4_OK(input) ==> __CPROVER_return_value == 0) /*@C03*/
__CPROVER_ensures(__CPROVER_return_value <= 0xFFFF) /*@C01 C02*/
__CPROVER_assigns();

/* ------------------------------------------------------------------ utf16_literal_to_utf8
 * input: n readable bytes starting at the backslash of \uXXXX (the caller has checked in[0..1]); output: 4 writable bytes.
 * The expected result is computed by a pure spec function written from RFC 8259 section 7 / RFC 3629, not from the code. */
size_t g_u16_n;   /* ghost: length of the readable input window (fixed by the harness, arbitrary) */
#define VF_U16_N g_u16_n
struct u16_spec { unsigned char ret; unsigned char len; unsigned char b[4]; };
static struct u16_spec spec_utf16(const unsigned char *in, size_t n)
{
    struct u16_spec r = { 0, 0, { 0, 0, 0, 0 } };
    unsigned long cp; unsigned c1, c2;
    if (n < 6 || !HEX4_OK(in + 2)) { return r; }               /* truncated, or not four hex digits */
    c1 = HEX4_VAL(in + 2);
    if (c1 >= 0xDC00 && c1 <= 0xDFFF) { return r; }            /* lone low surrogate */
    if (c1 >= 0xD800 && c1 <= 0xDBFF)
    {
        if (n < 12 || in[6] != '\\' || in[7] != 'u' || !HEX4_OK(in + 8)) { return r; }
        c2 = HEX4_VAL(in + 8);
        if (c2 < 0xDC00 || c2 > 0xDFFF) { return r; }          /* high surrogate without its low half */
        cp = 0x10000UL + (((unsigned long)(c1 - 0xD800) << 10) | (c2 - 0xDC00));
        r.ret = 12;
    }
    else { cp = c1; r.ret = 6; }
    if (cp < 0x80) { r.len = 1; r.b[0] = (unsigned char)cp; }
    else if (cp < 0x800) { r.len = 2; r.b[0] = (unsigned char)(0xC0 | (cp >> 6)); r.b[1] = (unsigned char)(0x80 | (cp & 0x3F)); }
    else if (cp < 0x10000) { r.len = 3; r.b[0] = (unsigned char)(0xE0 | (cp >> 12)); r.b[1] = (unsigned char)(0x80 | ((cp >> 6) & 0x3F)); r.b[2] = (unsigned char)(0x80 | (cp & 0x3F)); }
    else { r.len = 4; r.b[0] = (unsigned char)(0xF0 | (cp >> 18)); r.b[1] = (unsigned char)(0x80 | ((cp >> 12) & 0x3F)); r.b[2] = (unsigned char)(0x80 | ((cp >> 6) & 0x3F)); r.b[3] = (unsigned char)(0x80 | (cp & 0x3F)); }
    return r;
}
static unsigned char utf16_literal_to_utf8(const unsigned char * const input_pointer, const unsigned char * const input_end, unsigned char **output_pointer)
__CPROVER_requires(__CPROVER_is_fresh(input_pointer, VF_U16_N) && input_end == input_pointer + VF_U16_N)
__CPROVER_requires(__CPROVER_is_fresh(output_pointer, sizeof(*output_pointer)) && __CPROVER_is_fresh(*output_pointer, 4))
__CPROVER_ensures(__CPROVER_return_value == spec_utf16(input_pointer, VF_U16_N).ret) /*@C02 C03*/
__CPROVER_ensures(__CPROVER_return_value == 0 ==> *output_pointer == __CPROVER_old(*output_pointer)) /*@C01 C03*/
__CPROVER_ensures(__CPROVER_return_value != 0 ==> *output_pointer == __CPROVER_old(*output_pointer) + spec_utf16(input_pointer, VF_U16_N).len) /*@C02*/
__CPROVER_ensures(__CPROVER_return_value != 0 ==> __CPROVER_old(*output_pointer)[0] == spec_utf16(input_pointer, VF_U16_N).b[0]) /*@C02*/
__CPROVER_ensures((__CPROVER_return_value != 0 && spec_utf16(input_pointer, VF_U16_N).len >= 2) ==> __CPROVER_old(*output_pointer)[1] == spec_utf16(input_pointer, VF_U16_N).b[1]) /*@C02*/
__CPROVER_ensures((__CPROVER_return_value != 0 && spec_utf16(input_pointer, VF_U16_N).len >= 3) ==> __CPROVER_old(*output_pointer)[2] == spec_utf16(input_pointer, VF_U16_N).b[2]) /*@C02*/
__CPROVER_ensures((__CPROVER_return_value != 0 && spec_utf16(input_pointer, VF_U16_N).len >= 4) ==> __CPROVER_old(*output_pointer)[3] == spec_utf16(input_pointer, VF_U16_N).b[3]) /*@C02*/
__CPROVER_assigns(*output_pointer, __CPROVER_object_whole(*output_pointer));

/* ------------------------------------------------------------------ compare_double (same text in cJSON_Utils.c)
 * property C12: "numbers equal within relative DBL_EPSILON (a finite number never equals an infinite or NaN one)" */
#define FIN(x) __CPROVER_isfinited(x)
#define DMAXABS(a, b) (__CPROVER_fabs(a) > __CPROVER_fabs(b) ? __CPROVER_fabs(a) : __CPROVER_fabs(b))
#define SPEC_DEQ(a, b) (FIN(a) && FIN(b) && __CPROVER_fabs((a) - (b)) <= DMAXABS(a, b) * DBL_EPSILON)
static cJSON_bool compare_double(double a, double b)
__CPROVER_ensures((FIN(a) && FIN(b)) ==> (__CPROVER_return_value != 0) == SPEC_DEQ(a, b)) /*@C12 C04*/
__CPROVER_ensures((FIN(a) != FIN(b)) ==> __CPROVER_return_value == 0) /*@C12 C04*/
__CPROVER_ensures((__CPROVER_isnand(a) || __CPROVER_isnand(b)) ==> __CPROVER_return_value == 0) /*@C12*/
__CPROVER_ensures(__CPROVER_return_value == 0 || __CPROVER_return_value == 1) /*@C12*/
__CPROVER_assigns();

#endif
