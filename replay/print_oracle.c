/* Native replay oracle for the string printer (C04, C05, C09).  NOT the deciding step: it re-runs a counterexample the verifier produced
 * (the bytes of a string value) against the real printers.   usage: print_oracle <hexbytes of the string, no NUL>
 * exit 0: the real code satisfies the checked clauses on this input; exit 1: it does not (message on stdout). */
#include <stdio.h>
#include <stdlib.h>
#include <string.h>
#include "cJSON.h"
static size_t ref_escape(const unsigned char *s, size_t n, char *out)
{
    size_t o = 0, i; static const char hex[] = "0123456789abcdef";
    out[o++] = '"';
    for (i = 0; i < n; i++)
    {
        unsigned char c = s[i];
        switch (c)
        {
            case '"': out[o++] = '\\'; out[o++] = '"'; break;
            case '\\': out[o++] = '\\'; out[o++] = '\\'; break;
            case '\b': out[o++] = '\\'; out[o++] = 'b'; break;
            case '\f': out[o++] = '\\'; out[o++] = 'f'; break;
            case '\n': out[o++] = '\\'; out[o++] = 'n'; break;
            case '\r': out[o++] = '\\'; out[o++] = 'r'; break;
            case '\t': out[o++] = '\\'; out[o++] = 't'; break;
            default:
                if (c < 32) { out[o++] = '\\'; out[o++] = 'u'; out[o++] = '0'; out[o++] = '0'; out[o++] = hex[c >> 4]; out[o++] = hex[c & 15]; }
                else out[o++] = (char)c;
        }
    }
    out[o++] = '"'; out[o] = 0;
    return o;
}
int main(int argc, char **argv)
{
    size_t n, i, tl, L; unsigned char *s; char *ref, *txt; cJSON *item, *arr; int fails = 0;
    if (argc < 2) return 2;
    n = strlen(argv[1]) / 2; s = malloc(n + 1);
    for (i = 0; i < n; i++) { unsigned v; sscanf(argv[1] + 2 * i, "%2x", &v); s[i] = (unsigned char)v; }
    s[n] = 0;
    if (strlen((char*)s) != n) return 2;                     /* embedded NUL: not a C string */
    ref = malloc(6 * n + 8); tl = ref_escape(s, n, ref);
    item = cJSON_CreateString((char*)s);
    if (!item) return 2;
    txt = cJSON_PrintUnformatted(item);
    if (!txt || strcmp(txt, ref) != 0) { printf("C05: printed %s expected %s\n", txt ? txt : "(null)", ref); fails++; }
    cJSON_free(txt);
    /* the same string as an array element: the text behind it must still be well formed */
    arr = cJSON_CreateArray(); cJSON_AddItemToArray(arr, cJSON_CreateString((char*)s)); cJSON_AddItemToArray(arr, cJSON_CreateNumber(2));
    txt = cJSON_PrintUnformatted(arr);
    if (txt) { char *want = malloc(tl + 8); sprintf(want, "[%s,2]", ref); if (strcmp(txt, want) != 0) { printf("C05: array printed %s expected %s\n", txt, want); fails++; } free(want); }
    cJSON_free(txt); cJSON_Delete(arr);
    /* caller-supplied buffers of every length around the text length, between guard zones */
    for (L = 0; L <= tl + 8; L++)
    {
        size_t G = 32; unsigned char *blk = malloc(L + 2 * G); cJSON_bool r;
        memset(blk, 0xA5, L + 2 * G);
        r = cJSON_PrintPreallocated(item, (char*)blk + G, (int)L, 0);
        for (i = 0; i < G; i++) if (blk[i] != 0xA5 || blk[G + L + i] != 0xA5) { printf("C09: byte outside the caller's buffer of length %lu written (text needs %lu)\n", (unsigned long)L, (unsigned long)tl + 1); fails++; break; }
        if (r && (memchr(blk + G, 0, L) == NULL || strcmp((char*)blk + G, ref) != 0)) { printf("C09: success with length %lu but the buffer does not hold the complete terminated text\n", (unsigned long)L); fails++; }
        if (!r && L >= tl + 1 + 5) { printf("C09: length %lu refused although text+1+5 = %lu fits\n", (unsigned long)L, (unsigned long)tl + 6); fails++; }
        free(blk);
        if (fails > 4) break;
    }
    cJSON_Delete(item); free(ref); free(s);
    return fails ? 1 : 0;
}
