/* Native replay oracle for the numeric clause of C12.  NOT the deciding step: it re-runs a counterexample the verifier produced
 * (two doubles) against the real cJSON_Compare.   usage: compare_oracle <a> <b>   (strtod syntax, inf / nan allowed)
 * exit 0: the real code satisfies the checked clauses on this pair; exit 1: it does not (message on stdout). */
#include <stdio.h>
#include <stdlib.h>
#include <math.h>
#include <float.h>
#include "cJSON.h"
int main(int argc, char **argv)
{
    double a, b; cJSON *x, *y; int r1, r2, want, fails = 0;
    if (argc < 3) return 2;
    a = strtod(argv[1], NULL); b = strtod(argv[2], NULL);
    x = cJSON_CreateNumber(a); y = cJSON_CreateNumber(b);
    if (!x || !y) return 2;
    r1 = cJSON_Compare(x, y, 1) != 0; r2 = cJSON_Compare(y, x, 1) != 0;
    if (isnan(a) || isnan(b)) want = 0;
    else if (isinf(a) || isinf(b)) want = (a == b);
    else want = fabs(a - b) <= (fabs(a) > fabs(b) ? fabs(a) : fabs(b)) * DBL_EPSILON;
    if (r1 != r2) { printf("C12: not symmetric: Compare(%g, %g) = %d but Compare(%g, %g) = %d\n", a, b, r1, b, a, r2); fails++; }
    if (r1 != want) { printf("C12: Compare(%g, %g) = %d, expected %d (finite numbers within relative DBL_EPSILON; an infinity only equals itself; NaN equals nothing)\n", a, b, r1, want); fails++; }
    if (r2 != want) { printf("C12: Compare(%g, %g) = %d, expected %d\n", b, a, r2, want); fails++; }
    cJSON_Delete(x); cJSON_Delete(y);
    return fails ? 1 : 0;
}
