/* Native replay oracle for cJSON_Minify (C13): usage minify_oracle <hexbytes of the zero-terminated buffer>
 * exit 0: the real code agrees with the reference scanner on this input; exit 1: it does not. NOT the deciding step. */
#include <stdio.h>
#include <stdlib.h>
#include <string.h>
#include "cJSON.h"
static void ref_minify(const char *in, char *out)
{
    size_t i = 0, o = 0;
    while (in[i] != '\0')
    {
        char c = in[i];
        if (c == ' ' || c == '\t' || c == '\r' || c == '\n') { i++; }
        else if (c == '/' && in[i + 1] == '/') { i += 2; while (in[i] != '\0' && in[i] != '\n') i++; if (in[i] == '\n') i++; }
        else if (c == '/' && in[i + 1] == '*') { i += 2; while (in[i] != '\0' && !(in[i] == '*' && in[i + 1] == '/')) i++; if (in[i] != '\0') i += 2; }
        else if (c == '/') { i++; }
        else if (c == '\"')
        {
            out[o++] = in[i++];
            while (in[i] != '\0')
            {
                if (in[i] == '\\' && in[i + 1] != '\0') { out[o++] = in[i++]; out[o++] = in[i++]; }
                else if (in[i] == '\"') { out[o++] = in[i++]; break; }
                else { out[o++] = in[i++]; }
            }
        }
        else { out[o++] = c; i++; }
    }
    out[o] = '\0';
}
int main(int argc, char **argv)
{
    size_t n, i; char *buf, *orig, *ref;
    if (argc < 2) return 2;
    n = strlen(argv[1]) / 2;
    buf = malloc(n + 1); orig = malloc(n + 1); ref = malloc(n + 2);   /* exact-size block: ASan reports any access past the terminator */
    for (i = 0; i < n; i++) { unsigned v; sscanf(argv[1] + 2 * i, "%2x", &v); buf[i] = (char)v; }
    buf[n] = 0;
    { size_t l = strlen(buf); char *exact = malloc(l + 1); memcpy(exact, buf, l + 1); free(buf); buf = exact; memcpy(orig, buf, l + 1); }
    ref_minify(orig, ref);
    cJSON_Minify(buf);
    if (strlen(buf) > strlen(orig)) { printf("C13: result longer than the original\n"); return 1; }
    if (strcmp(buf, ref) != 0) { printf("C13: minified text differs from the reference\n  input : %s\n  got   : %s\n  expect: %s\n", orig, buf, ref); return 1; }
    free(buf); free(orig); free(ref);
    return 0;
}
