/* Native replay oracle for the parse family (C01, C02, C03, C10).  NOT the deciding step: it only re-runs a counterexample that the
 * verifier produced against the real code.   usage: parse_oracle <hexbytes> <length> <require_null_terminated 0|1>
 * exit 0: the real code satisfies the checked clauses on this input; exit 1: it does not (message on stdout). */
#include <stdio.h>
#include <stdlib.h>
#include <string.h>
#include "cJSON.h"

static long live = 0;
static void *h_malloc(size_t n) { void *p = malloc(n); if (p) live++; return p; }
static void h_free(void *p) { if (p) live--; free(p); }

/* ---- reference recogniser for the accepted dialect (written from the property text, independent of cJSON's code) */
static const unsigned char *B; static size_t N; static int ok;
static size_t ws(size_t i) { while (i < N && B[i] <= 0x20) i++; return i; }
static int hexd(unsigned char c) { return (c >= '0' && c <= '9') || (c >= 'a' && c <= 'f') || (c >= 'A' && c <= 'F'); }
static unsigned hv(const unsigned char *p) { unsigned v = 0; int k; for (k = 0; k < 4; k++) { unsigned char c = p[k]; v = v * 16 + (c <= '9' ? c - '0' : (c | 32) - 'a' + 10); } return v; }
static size_t str(size_t i)
{
    if (i >= N || B[i] != '"') { ok = 0; return i; }
    i++;
    while (i < N && B[i] != '"')
    {
        if (B[i] == '\\')
        {
            if (i + 1 >= N) { ok = 0; return i; }
            switch (B[i + 1])
            {
                case 'b': case 'f': case 'n': case 'r': case 't': case '"': case '\\': case '/': i += 2; break;
                case 'u':
                {
                    unsigned c1;
                    if (i + 6 > N || !hexd(B[i+2]) || !hexd(B[i+3]) || !hexd(B[i+4]) || !hexd(B[i+5])) { ok = 0; return i; }
                    c1 = hv(B + i + 2);
                    if (c1 >= 0xDC00 && c1 <= 0xDFFF) { ok = 0; return i; }
                    if (c1 >= 0xD800 && c1 <= 0xDBFF)
                    {
                        unsigned c2;
                        if (i + 12 > N || B[i+6] != '\\' || B[i+7] != 'u' || !hexd(B[i+8]) || !hexd(B[i+9]) || !hexd(B[i+10]) || !hexd(B[i+11])) { ok = 0; return i; }
                        c2 = hv(B + i + 8);
                        if (c2 < 0xDC00 || c2 > 0xDFFF) { ok = 0; return i; }
                        i += 12;
                    }
                    else { if (c1 == 0) { ok = -1; /* \u0000: outside the documented limits, no verdict */ } i += 6; }
                    break;
                }
                default: ok = 0; return i;
            }
        }
        else i++;
    }
    if (i >= N) { ok = 0; return i; }
    /* every escape must end before the closing quote: re-check that no escape straddled it */
    return i + 1;
}

/* reference decoding of a string literal starting at B[i] (already recognised as well formed): bytes it denotes, UTF-8 for \uXXXX (RFC 8259 section 7) */
static size_t ref_decode(size_t i, unsigned char *out)
{
    size_t o = 0;
    i++;
    while (i < N && B[i] != '"')
    {
        if (B[i] != '\\') { out[o++] = B[i++]; continue; }
        switch (B[i + 1])
        {
            case 'b': out[o++] = '\b'; i += 2; break;
            case 'f': out[o++] = '\f'; i += 2; break;
            case 'n': out[o++] = '\n'; i += 2; break;
            case 'r': out[o++] = '\r'; i += 2; break;
            case 't': out[o++] = '\t'; i += 2; break;
            case 'u':
            {
                unsigned long cp = hv(B + i + 2); i += 6;
                if (cp >= 0xD800 && cp <= 0xDBFF) { unsigned c2 = hv(B + i + 2); cp = 0x10000 + (((cp & 0x3FF) << 10) | (c2 & 0x3FF)); i += 6; }
                if (cp < 0x80) out[o++] = (unsigned char)cp;
                else if (cp < 0x800) { out[o++] = (unsigned char)(0xC0 | (cp >> 6)); out[o++] = (unsigned char)(0x80 | (cp & 0x3F)); }
                else if (cp < 0x10000) { out[o++] = (unsigned char)(0xE0 | (cp >> 12)); out[o++] = (unsigned char)(0x80 | ((cp >> 6) & 0x3F)); out[o++] = (unsigned char)(0x80 | (cp & 0x3F)); }
                else { out[o++] = (unsigned char)(0xF0 | (cp >> 18)); out[o++] = (unsigned char)(0x80 | ((cp >> 12) & 0x3F)); out[o++] = (unsigned char)(0x80 | ((cp >> 6) & 0x3F)); out[o++] = (unsigned char)(0x80 | (cp & 0x3F)); }
                break;
            }
            default: out[o++] = B[i + 1]; i += 2; break;   /* \" \\ \/ */
        }
    }
    return o;
}
static size_t num(size_t i)
{   /* lenient number: what strtod accepts over [0-9+-eE.] starting with '-' or a digit, at most 63 bytes */
    size_t s = i, e = i, k; int st = 0;
    for (k = 0; k < 63 && i + k < N; k++)
    {
        unsigned char c = B[i + k]; int dig = c >= '0' && c <= '9', sign = c == '+' || c == '-', ex = c == 'e' || c == 'E', pt = c == '.';
        if (!(dig || sign || ex || pt)) break;
        if (st == 0) { if (sign) st = 1; else if (dig) { st = 2; e = i + k + 1; } else if (pt) st = 3; else break; }
        else if (st == 1) { if (dig) { st = 2; e = i + k + 1; } else if (pt) st = 3; else break; }
        else if (st == 2) { if (dig) e = i + k + 1; else if (pt) { st = 4; e = i + k + 1; } else if (ex) st = 5; else break; }
        else if (st == 3) { if (dig) { st = 4; e = i + k + 1; } else break; }
        else if (st == 4) { if (dig) e = i + k + 1; else if (ex) st = 5; else break; }
        else if (st == 5) { if (sign) st = 6; else if (dig) { st = 7; e = i + k + 1; } else break; }
        else if (st == 6) { if (dig) { st = 7; e = i + k + 1; } else break; }
        else { if (dig) e = i + k + 1; else break; }
    }
    if (e == s) ok = 0;
    if (e - s >= 63) ok = -1;   /* literal longer than the documented limit: no verdict */
    return e;
}
static size_t val(size_t i, int depth);
static size_t arr(size_t i, int depth)
{
    if (depth >= 1000) { ok = 0; return i; }
    i = ws(i + 1);
    if (i < N && B[i] == ']') return i + 1;
    for (;;)
    {
        i = val(i, depth + 1); if (ok == 0) return i;
        i = ws(i);
        if (i < N && B[i] == ',') { i = ws(i + 1); continue; }
        if (i < N && B[i] == ']') return i + 1;
        ok = 0; return i;
    }
}
static size_t obj(size_t i, int depth)
{
    if (depth >= 1000) { ok = 0; return i; }
    i = ws(i + 1);
    if (i < N && B[i] == '}') return i + 1;
    for (;;)
    {
        i = str(i); if (ok == 0) return i;
        i = ws(i); if (i >= N || B[i] != ':') { ok = 0; return i; }
        i = ws(i + 1);
        i = val(i, depth + 1); if (ok == 0) return i;
        i = ws(i);
        if (i < N && B[i] == ',') { i = ws(i + 1); continue; }
        if (i < N && B[i] == '}') return i + 1;
        ok = 0; return i;
    }
}
static size_t val(size_t i, int depth)
{
    if (i + 4 <= N && !memcmp(B + i, "null", 4)) return i + 4;
    if (i + 5 <= N && !memcmp(B + i, "false", 5)) return i + 5;
    if (i + 4 <= N && !memcmp(B + i, "true", 4)) return i + 4;
    if (i < N && B[i] == '"') return str(i);
    if (i < N && (B[i] == '-' || (B[i] >= '0' && B[i] <= '9'))) return num(i);
    if (i < N && B[i] == '[') return arr(i, depth);
    if (i < N && B[i] == '{') return obj(i, depth);
    ok = 0; return i;
}

int main(int argc, char **argv)
{
    size_t hexlen, n, i; int rnt, fails = 0; unsigned char *buf; const char *end = NULL; cJSON *t; const char *ep;
    cJSON_Hooks hk = { h_malloc, h_free };
    if (argc < 4) return 2;
    hexlen = strlen(argv[1]) / 2; n = (size_t)strtoul(argv[2], 0, 10); rnt = atoi(argv[3]);
    if (n > hexlen) return 2;
    buf = malloc(n ? n : 1);                 /* exact-size heap block: ASan reports any read of byte n */
    for (i = 0; i < n; i++) { unsigned v; sscanf(argv[1] + 2 * i, "%2x", &v); buf[i] = (unsigned char)v; }
    cJSON_InitHooks(&hk);
    t = cJSON_ParseWithLengthOpts((const char*)buf, n, &end, rnt);
    ep = cJSON_GetErrorPtr();
    if (t == NULL)
    {
        if (ep == NULL || (n == 0 ? ep != (const char*)buf : (ep < (const char*)buf || ep > (const char*)buf + n - 1))) { printf("C10: error pointer outside the buffer (offset %ld, length %lu)\n", ep ? (long)(ep - (const char*)buf) : -1L, (unsigned long)n); fails++; }
        if (end != ep) { printf("C10: parse end and error pointer differ\n"); fails++; }
        if (live != 0) { printf("C03/C08: %ld block(s) left allocated after a rejected parse\n", live); fails++; }
    }
    else
    {
        if (ep != NULL) { printf("C10: error pointer not NULL after success\n"); fails++; }
        if (end < (const char*)buf || end > (const char*)buf + n) { printf("C10: parse end outside [start, end]\n"); fails++; }
        else if (rnt && (end >= (const char*)buf + n || *end != 0)) { printf("C10: termination required but parse end is not a zero byte inside the buffer\n"); fails++; }
    }
    /* accept/reject against the reference recogniser (skips a BOM that is followed by at least one byte, leading whitespace) */
    {
        size_t s = 0, e;
        B = buf; N = n; ok = 1;
        if (n >= 4 && buf[0] == 0xEF && buf[1] == 0xBB && buf[2] == 0xBF) s = 3;
        s = ws(s);
        if (n > 0 && s == n) s = n - 1;      /* whitespace up to the end: the parser looks at the last byte */
        e = (n == 0) ? (ok = 0, 0) : val(s, 0);
        if (ok == 1 && rnt)
        {   /* only whitespace, ending in a zero byte that is the last byte of the buffer (the unambiguous case) */
            size_t j = e; int allws = 1;
            for (; j < n; j++) if (buf[j] > 0x20) allws = 0;
            if (!(e < n && allws && buf[n - 1] == 0)) ok = (e < n && allws) ? -1 : ((e >= n) ? 0 : (allws ? -1 : 0));
        }
        if (ok == 1 && t == NULL) { printf("C02: acceptable text rejected\n"); fails++; }
        if (ok == 1 && t != NULL && s < n && buf[s] == '"' && cJSON_IsString(t) && t->valuestring != NULL)
        {   /* a top-level string: the decoded bytes must be exactly what the literal denotes (no \u0000 in an input with verdict 1) */
            unsigned char *ref = malloc(n + 4); size_t rl = ref_decode(s, ref);
            if (memchr(ref, 0, rl) == NULL && (strlen(t->valuestring) != rl || memcmp(t->valuestring, ref, rl) != 0))
            { size_t q; printf("C02: string decoded to"); for (q = 0; t->valuestring[q]; q++) printf(" %02X", (unsigned char)t->valuestring[q]); printf(" expected"); for (q = 0; q < rl; q++) printf(" %02X", ref[q]); printf("\n"); fails++; }
            free(ref);
        }
        if (ok == 0 && t != NULL) { printf("C03: malformed text accepted\n"); fails++; }
    }
    if (t) { char *txt = cJSON_PrintUnformatted(t); if (!txt) { printf("C01: accepted tree cannot be printed\n"); fails++; } cJSON_free(txt); cJSON_Delete(t); if (live != 0) { printf("C07: %ld block(s) left after deleting the tree\n", live); fails++; } }
    free(buf);
    return fails ? 1 : 0;
}
