/* cJSONUtils_FindPointerFromObjectTo, bounded unit (B): for every node of every document of <= 4 nodes / depth <= 2 the constructed pointer
 * resolves back to that same node (through the real lookup) and is correctly escaped.  Allocation assumed to succeed (the utility does not check it). */
#define VF_BUILTIN_STRINGS
#define VF_BUILTIN_MEMCPY
#define VF_NOFAIL
#define VF_ALLOC_CONCRETE 24
#include "both_tu.h"
#include "tree.h"
void h_u_findpointer_b(void)
{
    struct t_tree t; cJSON *root, *target; unsigned i, k = nondet_uint_(); char *p; cJSON *back;
    VF_INIT();
    global_hooks.allocate = vf_alloc; global_hooks.deallocate = vf_free; global_hooks.reallocate = NULL;
    root = t_build_n(&t, 0, PT_NC, PT_NG);
    __CPROVER_assume(k < t.count);
    for (i = 0; i < T_MAXNODES; i++) { if (i < t.count) { int ty = t.node[i]->type & 0xFF; __CPROVER_assume(!(t.node[i]->type & cJSON_IsReference)); if (t.node[i]->child != NULL) __CPROVER_assume(ty == cJSON_Array || ty == cJSON_Object); } }
    if ((root->type & 0xFF) == cJSON_Object) { for (i = 1; i <= 2; i++) if (i <= t.nchildren) __CPROVER_assume(t.key[i] != NULL); if (t.nchildren == 2) __CPROVER_assume(t.key[1][0] != t.key[2][0]); }
    if (t.ngrand == 1 && (t.node[1]->type & 0xFF) == cJSON_Object) __CPROVER_assume(t.key[t.nchildren + 1] != NULL);
    target = t.node[k];

    p = cJSONUtils_FindPointerFromObjectTo(root, target);
    __CPROVER_assert(p != NULL, "C15 every node inside the tree has a pointer");
    back = cJSONUtils_GetPointerCaseSensitive(root, p);
    __CPROVER_assert(back == target, "C15 the constructed pointer resolves back to the same node (correctly escaped)");
    if (target == root) __CPROVER_assert(p[0] == 0, "C15 the root is the empty pointer");
    cJSON_free(p);
    __CPROVER_assert(g_live == NULL, "C07 result released with cJSON_free, nothing else left");
    __CPROVER_assert(cJSONUtils_FindPointerFromObjectTo(NULL, target) == NULL && cJSONUtils_FindPointerFromObjectTo(root, NULL) == NULL, "C15 NULL arguments");
    VF_COVER(k + 1 == t.count);
    VF_COVER(PT_NC == 0 || (k >= 1 && (root->type & 0xFF) == cJSON_Object && (t.key[k < 3 ? k : 1] == NULL || t.key[k < 3 ? k : 1][0] == '/' || t.key[k < 3 ? k : 1][0] == '~')));
    VF_COVER(k == 0);
}
