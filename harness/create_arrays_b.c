/* cJSON_Create{Int,Float,Double,String}Array, bounded unit (B): count <= 3 (and negative / NULL), allocator may refuse every request.
 * (C06) values in order, well-formed sibling chain incl. the tail link; (C08) NULL leaves nothing allocated. */
#define VF_ALLOC_CONCRETE 4
#define VF_BUILTIN_STRINGS
#define VF_BUILTIN_MEMCPY
#include "cjson_tu.h"
#define CA_N 3
static void chk_chain(cJSON *a, int count)
{
    cJSON *c = a->child, *last = NULL; int i;
    __CPROVER_assert((a->type & 0xFF) == cJSON_Array && a->next == NULL && a->prev == NULL, "C06 array node");
    for (i = 0; i < CA_N; i++) { if (i >= count) break; __CPROVER_assert(c != NULL && (last == NULL || c->prev == last), "C06 children in order, back links mirror"); last = c; c = c->next; }
    __CPROVER_assert(c == NULL, "C06 forward links end in NULL after count children");
    if (count > 0) __CPROVER_assert(a->child->prev == last, "C06 first child's back link designates the last child"); else __CPROVER_assert(a->child == NULL, "C06 empty array");
}
void h_create_arrays_b(void)
{
#ifdef CA_COUNT
    int count = CA_COUNT, which = CA_WHICH, i; cJSON *a = NULL;   /* concrete shape per unit (symbolic counts make symex explode through cJSON_Delete) */
#else
    int count = nondet_int(), which = nondet_int(), i; cJSON *a = NULL;
#endif
    int ints[CA_N]; float fl[CA_N]; double db[CA_N]; const char *strs[CA_N]; char sbuf[CA_N][2];
    __CPROVER_assume(count <= CA_N);
    VF_INIT();
    global_hooks.allocate = vf_alloc; global_hooks.deallocate = vf_free; global_hooks.reallocate = NULL;
    for (i = 0; i < CA_N; i++) { ints[i] = nondet_int(); fl[i] = (float)nondet_int(); db[i] = (double)nondet_int(); sbuf[i][0] = (char)nondet_uchar(); sbuf[i][1] = 0; strs[i] = sbuf[i]; }
    if (which == 0) a = cJSON_CreateIntArray(nondet_bool() ? ints : NULL, count);
    else if (which == 1) a = cJSON_CreateFloatArray(fl, count);
    else if (which == 2) a = cJSON_CreateDoubleArray(db, count);
    else a = cJSON_CreateStringArray(strs, count);
    if (a == NULL) { __CPROVER_assert(g_live == NULL, "C08 a refused bulk constructor leaves nothing allocated"); VF_COVER(count < 0 || g_hook_allocs >= 1 || count == 0); }
    else
    {
        cJSON *c = a->child;
        __CPROVER_assert(count >= 0, "C06 negative count refused");
        chk_chain(a, count);
        for (i = 0; i < CA_N; i++)
        {
            if (i >= count) break;
            if (which == 0) __CPROVER_assert((c->type & 0xFF) == cJSON_Number && c->valueint == ints[i] && c->valuedouble == (double)ints[i], "C06 int array values in order");
            else if (which == 1) __CPROVER_assert((c->type & 0xFF) == cJSON_Number && c->valuedouble == (double)fl[i], "C06 float array values in order");
            else if (which == 2) __CPROVER_assert((c->type & 0xFF) == cJSON_Number && c->valuedouble == db[i], "C06 double array values in order");
            else __CPROVER_assert((c->type & 0xFF) == cJSON_String && c->valuestring != NULL && c->valuestring != strs[i] && c->valuestring[0] == sbuf[i][0], "C06 string array values in order (owned copies)");
            c = c->next;
        }
#if !defined(CA_COUNT) || (CA_COUNT) >= 0
        VF_COVER(count >= 0);
#endif
    }
}
