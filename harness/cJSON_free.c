#include "cjson_tu.h"
void h_cJSON_free(void)
{
    void *o;
    VF_INIT();
    cJSON_free(o);
    VF_COVER(g_hook_frees > 0);
}
