/* Thin public wrappers of cJSON_Utils.c under DFCC: the static worker is replaced by its logging view (specs/contracts_utils.h). */
#include "utils_tu.h"
#ifndef UW_FN
#error UW_FN
#endif
void UW_H(void)
{
    cJSON *a; cJSON *b; const char *s;
    VF_INIT(); g_uw.calls = 0; g_cp.calls = 0; g_ugoi.calls = 0;
#if UW_KIND == 0      /* (cJSON*, const char*) -> cJSON*   */
    { cJSON *r = UW_FN(a, s); VF_COVER(r != NULL); VF_COVER(r == NULL); }
#elif UW_KIND == 1    /* (cJSON*, cJSON*) -> cJSON* */
    { cJSON *r = UW_FN(a, b); VF_COVER(r != NULL); VF_COVER(r == NULL); }
#elif UW_KIND == 4    /* get_object_item */
    { cJSON_bool cs = nondet_bool(); cJSON *r = get_object_item(a, s, cs); VF_COVER(r != NULL && cs); VF_COVER(r == NULL && !cs); }
#elif UW_KIND == 3    /* GeneratePatches */
    { cJSON *r = UW_FN(a, b); VF_COVER(r != NULL); VF_COVER(r == NULL && g_cp.calls == 1); VF_COVER(g_cp.calls == 0); }
#else                 /* (cJSON*) -> void */
    { UW_FN(a); VF_COVER(g_uw.calls == 1); VF_COVER(a == NULL); }
#endif
}
