/* print_value with ensure and the four composite writers replaced by contracts (callee views) */
#include "cjson_tu.h"
void h_print_value(void)
{
    const cJSON *i; printbuffer *p; cJSON_bool r;
    VF_INIT(); g_ens_calls = 0; g_wb_calls = 0; g_disp = D_NONE;
    r = print_value(i, p);
    VF_COVER(r && g_ens_needed == 6);
    VF_COVER(r && g_disp == D_OBJECT);
    VF_COVER(r && g_ens_calls == 1 && g_ens_needed > 10);
    VF_COVER(!r && g_ens_calls == 1);
    VF_COVER(!r && g_ens_calls == 0 && g_wb_calls == 0);
}
