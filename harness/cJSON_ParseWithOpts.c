#include "cjson_tu.h"
void h_cJSON_ParseWithOpts(void)
{
    const char *v; const char **e; cJSON_bool rnt; cJSON *r;
    VF_INIT(); g_pl_calls = 0;
    r = cJSON_ParseWithOpts(v, e, rnt);
    VF_COVER(r != NULL && g_pl_len > 5);
    VF_COVER(r == NULL && g_pl_calls == 1);
    VF_COVER(r == NULL && g_pl_calls == 0);
}
