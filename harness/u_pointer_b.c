/* JSON Pointer resolution and construction, bounded unit (B) on the REAL core + utilities (one TU, see specs/both_tu.h):
 * documents of <= 4 nodes / depth <= 2 (arrays, objects with distinct non-NULL 1-byte keys over an alphabet that includes '/', '~', digits),
 * every pointer string of <= PT_N bytes.  Compared with a reference resolver written from RFC 6901. */
#ifndef PT_N
#define PT_N 5
#endif
#define VF_BUILTIN_STRINGS
#define VF_BUILTIN_MEMCPY
#include "both_tu.h"
#include "tree.h"
static struct t_tree T;
static const cJSON *kid(const cJSON *n, unsigned idx)
{   /* idx-th child by construction of tree.h */
    if (n == T.node[0]) { if (idx < T.nchildren) return T.node[1 + idx]; return NULL; }
    if (T.nchildren >= 1 && n == T.node[1] && T.ngrand == 1 && idx == 0) return T.node[T.nchildren + 1];
    return NULL;
}
static unsigned nkids(const cJSON *n) { if (n == T.node[0]) return T.nchildren; if (T.nchildren >= 1 && n == T.node[1]) return T.ngrand; return 0; }
static const cJSON *ref_resolve(const cJSON *root, const char *p)
{
    const cJSON *cur = root; size_t i = 0; unsigned step;
    if (p == NULL) return NULL;
    if (p[0] == 0) return root;
    if (p[0] != '/') return NULL;
    for (step = 0; step < PT_N; step++)
    {
        size_t s, e; unsigned k;
        if (p[i] != '/' ) break;
        s = i + 1; e = s; while (p[e] != 0 && p[e] != '/') e++;
        if ((cur->type & 0xFF) == cJSON_Array)
        {
            size_t v = 0, j; int ok = (e > s);
            for (j = s; j < e; j++) { if (p[j] < '0' || p[j] > '9') ok = 0; else v = v * 10 + (size_t)(p[j] - '0'); }
            if (e - s > 1 && p[s] == '0') ok = 0;
            if (!ok) return NULL;
            cur = (v < nkids(cur)) ? kid(cur, (unsigned)v) : NULL;
        }
        else if ((cur->type & 0xFF) == cJSON_Object)
        {
            unsigned char dec[PT_N + 1]; size_t j = s, o = 0; int ok = 1; const cJSON *hit = NULL;
            while (j < e) { if (p[j] == '~') { if (j + 1 < e && p[j + 1] == '0') dec[o++] = '~'; else if (j + 1 < e && p[j + 1] == '1') dec[o++] = '/'; else { ok = 0; break; } j += 2; } else dec[o++] = (unsigned char)p[j++]; }
            if (ok) { for (k = 0; k < 2; k++) { const cJSON *c = kid(cur, k); if (c != NULL && hit == NULL && c->string != NULL && o == 1 && (unsigned char)c->string[0] == dec[0]) hit = c; } }
            cur = hit;
        }
        else return NULL;
        if (cur == NULL) return NULL;
        i = e;
    }
    return cur;
}
void h_u_pointer_b(void)
{
    cJSON *root; char *ptr = malloc(PT_N + 1); unsigned i; const cJSON *want; cJSON *got;
    __CPROVER_assume(ptr != NULL);
    VF_INIT();
    global_hooks.allocate = vf_alloc; global_hooks.deallocate = vf_free; global_hooks.reallocate = NULL;
#define VF_MAY_FAIL_OFF 1
    root = t_build_n(&T, 0, PT_NC, PT_NG);
    /* containers are arrays or objects; members of objects have distinct non-NULL keys; leaves are scalars */
    for (i = 0; i < T_MAXNODES; i++) { if (i < T.count) { int t = T.node[i]->type & 0xFF; __CPROVER_assume(!(T.node[i]->type & cJSON_IsReference)); if (nkids(T.node[i]) > 0) __CPROVER_assume(t == cJSON_Array || t == cJSON_Object); } }
    if ((root->type & 0xFF) == cJSON_Object) { for (i = 1; i <= 2; i++) if (i <= T.nchildren) __CPROVER_assume(T.key[i] != NULL); if (T.nchildren == 2) __CPROVER_assume(T.key[1][0] != T.key[2][0]); }
    if (T.ngrand == 1 && (T.node[1]->type & 0xFF) == cJSON_Object) __CPROVER_assume(T.key[T.nchildren + 1] != NULL);
    for (i = 0; i < PT_N; i++) ptr[i] = (char)nondet_uchar(); ptr[PT_N] = 0;

    want = ref_resolve(root, ptr);
    got = cJSONUtils_GetPointerCaseSensitive(root, ptr);
    __CPROVER_assert(got == want, "C15 pointer lookup returns exactly the node RFC 6901 designates, NULL for anything else");
    __CPROVER_assert(cJSONUtils_GetPointerCaseSensitive(root, NULL) == NULL, "C15 NULL pointer");
    VF_COVER(PT_NG == 0 || (got != NULL && got == T.node[T.nchildren + 1]));
    VF_COVER(PT_NC < 2 || (got == T.node[2] && (root->type & 0xFF) == cJSON_Object));
    VF_COVER(got == NULL && ptr[0] == '/');
    VF_COVER(got == root);
}
