#include "cjson_tu.h"
void h_cJSON_strdup(void)
{
    const unsigned char *s; const internal_hooks *h; unsigned char *r;
    VF_INIT();
    r = cJSON_strdup(s, h);
    VF_COVER(r != NULL && __CPROVER_OBJECT_SIZE(r) > 4); VF_COVER(r == NULL);
}
