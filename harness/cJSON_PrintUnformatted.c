#include "cjson_tu.h"
void h_cJSON_PrintUnformatted(void)
{
    const cJSON *i; char *r;
    VF_INIT(); g_wb_calls = 0; g_pr_calls = 0; g_disp = D_NONE;
    r = cJSON_PrintUnformatted(i);
    VF_COVER(r != NULL);
}
