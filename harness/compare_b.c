/* cJSON_Compare, bounded unit (B): every pair of trees of <= 3 nodes each (root + up to 2 children; objects with distinct non-NULL keys),
 * symbolic types, flags, numbers, 1-byte strings, both case modes; compared with model equality of JSON values written from the property text. */
#include "cjson_tu.h"
#include "tree.h"
static int valid_type(int t) { t &= 0xFF; return t == cJSON_False || t == cJSON_True || t == cJSON_NULL || t == cJSON_Number || t == cJSON_String || t == cJSON_Raw || t == cJSON_Array || t == cJSON_Object; }
static int keyeq(const char *a, const char *b, cJSON_bool cs)
{
    int x, y;
    if (a == NULL || b == NULL) return 0;
    x = (unsigned char)a[0]; y = (unsigned char)b[0];
    if (!cs) { if (x >= 'A' && x <= 'Z') x += 32; if (y >= 'A' && y <= 'Z') y += 32; }
    return x == y;
}
/* leaves (children have no children in this unit) */
static int leaf_eq(const cJSON *a, const cJSON *b)
{
    int t;
    if (a == NULL || b == NULL || (a->type & 0xFF) != (b->type & 0xFF) || !valid_type(a->type)) return 0;
    if (a == b) return 1;
    t = a->type & 0xFF;
    if (t == cJSON_False || t == cJSON_True || t == cJSON_NULL) return 1;
    if (t == cJSON_Number) return SPEC_DEQ(a->valuedouble, b->valuedouble) || (__CPROVER_isinfd(a->valuedouble) && a->valuedouble == b->valuedouble);
    if (t == cJSON_String || t == cJSON_Raw) return a->valuestring != NULL && b->valuestring != NULL && a->valuestring[0] == b->valuestring[0];
    return a->child == NULL && b->child == NULL;   /* empty array / object */
}
void h_compare_b(void)
{
    struct t_tree ta, tb; cJSON *a, *b; cJSON_bool cs = nondet_bool(), r, r2; int want; unsigned i; int t;
    cJSON sa[3], sb[3];
    VF_INIT();
    a = t_build_n(&ta, 0, CMP_NA, 0); b = t_build_n(&tb, 0, CMP_NB, 0);
    /* doubles: the numeric clause is decided for all pairs of doubles in unit compare_double; here a small set keeps the unit tractable */
    for (i = 0; i < 3; i++) { if (i < ta.count) { double d = ta.node[i]->valuedouble; __CPROVER_assume(d == 0.0 || d == 1.0 || d == 1.0 + DBL_EPSILON || __CPROVER_isinfd(d) || __CPROVER_isnand(d)); } if (i < tb.count) { double d = tb.node[i]->valuedouble; __CPROVER_assume(d == 0.0 || d == 1.0 || d == 1.0 + DBL_EPSILON || __CPROVER_isinfd(d) || __CPROVER_isnand(d)); } }
    /* precondition of the property: members of an object have keys, distinct under the comparison's case rule */
    if ((a->type & 0xFF) == cJSON_Object) { for (i = 1; i <= 2; i++) if (i <= ta.nchildren) __CPROVER_assume(ta.key[i] != NULL); if (ta.nchildren == 2) __CPROVER_assume(!keyeq(ta.key[1], ta.key[2], cs)); }
    if ((b->type & 0xFF) == cJSON_Object) { for (i = 1; i <= 2; i++) if (i <= tb.nchildren) __CPROVER_assume(tb.key[i] != NULL); if (tb.nchildren == 2) __CPROVER_assume(!keyeq(tb.key[1], tb.key[2], cs)); }
    for (i = 0; i < 3; i++) { if (i < ta.count) sa[i] = *ta.node[i]; if (i < tb.count) sb[i] = *tb.node[i]; }
    /* model equality */
    t = a->type & 0xFF;
    if ((a->type & 0xFF) != (b->type & 0xFF) || !valid_type(a->type)) want = 0;
    else if (t == cJSON_Array)
    {
        want = (ta.nchildren == tb.nchildren);
        for (i = 1; i <= 2; i++) if (want && i <= ta.nchildren) want = leaf_eq(ta.node[i], tb.node[i]);
    }
    else if (t == cJSON_Object)
    {
        want = (ta.nchildren == tb.nchildren);
        for (i = 1; i <= 2; i++)
        {
            if (want && i <= ta.nchildren)
            {   /* the member of b with the same key, if any */
                const cJSON *m = NULL; unsigned j;
                for (j = 1; j <= 2; j++) if (j <= tb.nchildren && m == NULL && keyeq(ta.key[i], tb.key[j], cs)) m = tb.node[j];
                want = (m != NULL) && leaf_eq(ta.node[i], m);
            }
        }
    }
    else want = leaf_eq(a, b);

    r = cJSON_Compare(a, b, cs);
    r2 = cJSON_Compare(b, a, cs);
    __CPROVER_assert((r != 0) == (want != 0), "C12 true exactly when both trees denote the same JSON value (type, numbers within relative epsilon, strings, arrays in order, objects as key sets; ownership flags ignored)");
    __CPROVER_assert(r == r2, "C12 symmetric");
    if (valid_type(a->type)) __CPROVER_assert(cJSON_Compare(a, a, cs), "C12 reflexive on valid trees");
    __CPROVER_assert(!cJSON_Compare(a, NULL, cs) && !cJSON_Compare(NULL, b, cs), "C12 false when either argument is NULL");
    for (i = 0; i < 3; i++)
    {
        if (i < ta.count) { cJSON *n = ta.node[i]; __CPROVER_assert(n->next == sa[i].next && n->prev == sa[i].prev && n->child == sa[i].child && n->type == sa[i].type && n->valuestring == sa[i].valuestring && n->string == sa[i].string, "C12 never modifies its arguments"); }
        if (i < tb.count) { cJSON *n = tb.node[i]; __CPROVER_assert(n->next == sb[i].next && n->prev == sb[i].prev && n->child == sb[i].child && n->type == sb[i].type && n->valuestring == sb[i].valuestring && n->string == sb[i].string, "C12 never modifies its arguments"); }
    }
    VF_COVER((CMP_NA != CMP_NB || r) && t == cJSON_Object);
    VF_COVER((CMP_NA != CMP_NB || r) && t == cJSON_Array);
    VF_COVER(!r && t == cJSON_Object);
    VF_COVER(r && t == cJSON_Number && (CMP_NA + CMP_NB > 0 || a->valuedouble != b->valuedouble));
}
