#include "cjson_tu.h"
void h_cJSON_New_Item(void)
{
    const internal_hooks *h; cJSON *r;
    VF_INIT();
    r = cJSON_New_Item(h);
    VF_COVER(r != NULL); VF_COVER(r == NULL);
}
