#include "cjson_tu.h"
void h_parse_hex4(void)
{
    const unsigned char *p;
    unsigned r = parse_hex4(p);
    VF_COVER(r == 0);
    VF_COVER(r == 0xBEEF);
}
