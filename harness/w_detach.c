/* cJSON_DetachItemViaPointer on a list of every length (poisoned window), every position, plus the refused calls */
#include "cjson_tu.h"
#include "window.h"
void h_w_detach(void)
{
    cJSON *item, *r, *old_child;
    cJSON snap_item;
    int mode = nondet_int();
    w_build(1);
    w_poison();
    item = w_nodes[w_k];
    if (mode == 1)
    {   /* refused: NULL arguments */
        _Bool pn = nondet_bool();
        old_child = w_parent->child; snap_item = *item;
        r = cJSON_DetachItemViaPointer(pn ? NULL : w_parent, pn ? item : NULL);
        __CPROVER_assert(r == NULL, "C06 refused: NULL argument");
        __CPROVER_assert(w_parent->child == old_child && item->next == snap_item.next && item->prev == snap_item.prev, "C06 refused call changes nothing");
        VF_COVER(r == NULL);
        return;
    }
    if (mode == 2)
    {   /* refused: an item that is not linked into this parent (no back link and not the first child) */
        cJSON *stray = malloc(sizeof(cJSON));
        __CPROVER_assume(stray != NULL);
        stray->prev = NULL;
        old_child = w_parent->child;
        r = cJSON_DetachItemViaPointer(w_parent, stray);
        __CPROVER_assert(r == NULL && w_parent->child == old_child, "C06 refused: item without back link");
        VF_COVER(r == NULL);
        return;
    }
    r = cJSON_DetachItemViaPointer(w_parent, item);
    __CPROVER_assert(r == item, "C06 returns the detached item");
    __CPROVER_assert(item->next == NULL && item->prev == NULL, "C06 detached item has no sibling links");
    if (w_n == 1) { __CPROVER_assert(w_parent->child == NULL, "C06 container empty after detaching the only child"); }
    else
    {
        cJSON *new_head = (w_k == 0) ? w_nodes[1] : w_nodes[0];
        cJSON *new_tail = (w_k == w_n - 1) ? w_nodes[w_n - 2] : w_nodes[w_n - 1];
        __CPROVER_assert(w_parent->child == new_head, "C06 first child after detach");
        __CPROVER_assert(new_head->prev == new_tail, "C06 first child's back link designates the last child");
        __CPROVER_assert(new_tail->next == NULL, "C06 forward links end in NULL");
        if (w_k > 0 && w_k < w_n - 1) { __CPROVER_assert(w_nodes[w_k - 1]->next == w_nodes[w_k + 1] && w_nodes[w_k + 1]->prev == w_nodes[w_k - 1], "C06 neighbours relinked (back link mirrors forward link)"); }
        if (w_k == 0 && w_n > 2) { __CPROVER_assert(w_nodes[1]->next == w_nodes[2], "C06 rest of the chain untouched"); }
    }
    VF_COVER(w_n == 6 && w_k == 3);
    VF_COVER(w_n == 1);
    VF_COVER(w_n == 4 && w_k == 3);
}
