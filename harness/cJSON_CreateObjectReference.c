#include "cjson_tu.h"
void h_cJSON_CreateObjectReference(void)
{
    const cJSON *c; cJSON *r;
    VF_INIT();
    r = cJSON_CreateObjectReference(c);
    VF_COVER(r != NULL); VF_COVER(r == NULL);
}
