#include "cjson_tu.h"
void h_cJSON_AddItemReferenceToObject(void)
{
    cJSON *o, *i; const char *s; cJSON_bool r;
    VF_INIT(); g_cr_calls = 0; g_aito_calls = 0; g_del_calls = 0;
    r = cJSON_AddItemReferenceToObject(o, s, i);
    VF_COVER(r); VF_COVER(!r && g_cr_calls == 1 && g_cr_ret != NULL); VF_COVER(!r && g_cr_calls == 0);
}
