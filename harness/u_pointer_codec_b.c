/* JSON-pointer token helpers, bounded unit (B): compare_pointers, pointer_encoded_length + encode_string_as_pointer, decode_pointer_inplace
 * against reference ~0/~1 coding (RFC 6901 section 3/4), names and tokens of up to PC_N bytes. */
#ifndef PC_N
#define PC_N 4
#endif
#include "utils_tu.h"
/* reference decode of one token (up to NUL or '/'): returns length or -1 for an invalid escape */
static int ref_decode_token(const unsigned char *t, unsigned char *out)
{
    int o = 0; size_t i = 0, g;
    for (g = 0; g < 2 * PC_N + 2; g++)
    {
        if (t[i] == 0 || t[i] == '/') break;
        if (t[i] == '~') { if (t[i + 1] == '0') out[o++] = '~'; else if (t[i + 1] == '1') out[o++] = '/'; else return -1; i += 2; }
        else out[o++] = t[i++];
    }
    return o;
}
void h_u_pointer_codec_b(void)
{
    unsigned char *name = malloc(PC_N + 1), *tok = malloc(2 * PC_N + 1), *enc, dec[2 * PC_N + 2];
    size_t i, nlen, elen; int dl; cJSON_bool eq; int same;
    __CPROVER_assume(name != NULL && tok != NULL);
    for (i = 0; i < PC_N; i++) name[i] = nondet_uchar(); name[PC_N] = 0;
    for (i = 0; i < 2 * PC_N; i++) tok[i] = nondet_uchar(); tok[2 * PC_N] = 0;
    for (nlen = 0; name[nlen]; nlen++) {}
    /* 1. compare_pointers(name, token): true exactly when the decoded token equals the name (case-sensitive) */
    dl = ref_decode_token(tok, dec);
    same = (dl >= 0 && (size_t)dl == nlen);
    if (same) { for (i = 0; i < PC_N; i++) { if (i < nlen && dec[i] != name[i]) same = 0; } }
    eq = compare_pointers(name, tok, 1);
    __CPROVER_assert((eq != 0) == (same != 0), "C15 token selects the member whose key equals it after ~1/~0 decoding (invalid escape never matches)");
    __CPROVER_assert(!compare_pointers(NULL, tok, 1) && !compare_pointers(name, NULL, 1), "C15 NULL never matches");
    /* 2. encode: length exact, output decodes back to the name, contains no raw '/' */
    elen = pointer_encoded_length(name);
    enc = malloc(elen + 1);
    __CPROVER_assume(enc != NULL);
    encode_string_as_pointer(enc, name);
    __CPROVER_assert(enc[elen] == 0, "C15 encoded key is terminated exactly at the computed length");
    for (i = 0; i < 2 * PC_N; i++) { if (i < elen) __CPROVER_assert(enc[i] != '/' && enc[i] != 0, "C15 encoded key has no raw slash"); }
    {
        unsigned char back[2 * PC_N + 2]; int bl = ref_decode_token(enc, back);
        __CPROVER_assert(bl >= 0 && (size_t)bl == nlen, "C15 encoded key decodes to the same length");
        for (i = 0; i < PC_N; i++) { if (i < nlen) __CPROVER_assert(back[i] == name[i], "C15 encoded key decodes back to the key"); }
        __CPROVER_assert(compare_pointers(name, enc, 1), "C15 the constructed token resolves to its own key");
    }
    /* 3. decode_pointer_inplace on a token without '/' : equals the reference decoding when every escape is valid */
    {
        unsigned char *t2 = malloc(2 * PC_N + 1); int has_slash = 0;
        __CPROVER_assume(t2 != NULL);
        for (i = 0; i < 2 * PC_N + 1; i++) { t2[i] = tok[i]; if (tok[i] == '/') has_slash = 1; }
        decode_pointer_inplace(t2);
        if (dl >= 0 && !has_slash)
        {
            for (i = 0; i < 2 * PC_N; i++) { if (i < (size_t)dl) __CPROVER_assert(t2[i] == dec[i], "C16 in-place decoding of a path token (~1 -> '/', ~0 -> '~', other bytes kept)"); }
            __CPROVER_assert(t2[dl] == 0, "C16 decoded token terminated");
        }
        decode_pointer_inplace(NULL);
    }
    VF_COVER(eq && nlen == PC_N && dl == PC_N);
    VF_COVER(eq && nlen == 2);
    VF_COVER(elen == 2 * PC_N);
}
