#include "cjson_tu.h"
void h_cJSON_AddNullToObject(void)
{
    cJSON *o; const char *name;  cJSON *r;
    VF_INIT(); g_cr_calls = 0; g_aito_calls = 0; g_del_calls = 0;
    r = cJSON_AddNullToObject(o, name);
    VF_COVER(r != NULL);
    VF_COVER(r == NULL && g_cr_ret != NULL);
    VF_COVER(r == NULL && g_cr_ret == NULL);
}
