/* parse_array skeleton: cJSON_New_Item, parse_value, cJSON_Delete replaced by callee views; buffer_skip_whitespace inlined (loop contract);
 * the element loop is unwound K=3 times (its unwinding assertion is the stated bound) */
#include "cjson_tu.h"
void h_parse_array(void)
{
    cJSON *item; parse_buffer *b; cJSON_bool r;
    VF_INIT(); g_nit_calls = 0; g_pv_calls = 0; g_del_calls = 0;
    r = parse_array(item, b);
    VF_COVER(r && g_pv_calls == 0);
    VF_COVER(r && g_pv_calls == 3);
    VF_COVER(!r && g_nit_calls == 2 && g_pv_calls == 2);
    VF_COVER(!r && g_nit_calls == 1 && g_pv_calls == 1 && g_pvl[0].ok);
    VF_COVER(!r && g_nit_calls == 0 && g_pv_calls == 0);
}
