#include "cjson_tu.h"
void h_skip_utf8_bom(void)
{
    parse_buffer *b;
    parse_buffer *r = skip_utf8_bom(b);
    VF_COVER(r == NULL);
    VF_COVER(r != NULL && r->offset == 3);
    VF_COVER(r != NULL && r->offset == 0 && r->length > 10);
}
