/* Size / index / key queries, bounded unit (B): containers with n <= LK_N children (well-formed chain), non-NULL 1-byte keys, every query name of 1 byte (or NULL).
 * (C06) answers match the ordered-list model: k-th child or NULL; first exact match (case-sensitive) / first ASCII-case-folded match (case-insensitive). */
#ifndef LK_N
#define LK_N 4
#endif
#define VF_BUILTIN_STRINGS
#include "cjson_tu.h"
static int fold(int c) { return (c >= 'A' && c <= 'Z') ? c + 32 : c; }
void h_lookups_b(void)
{
    cJSON *obj = malloc(sizeof(cJSON)); cJSON *nodes[LK_N]; char *keys[LK_N]; char name[2];
    unsigned n = nondet_uint_(), i; int idx = nondet_int(); cJSON *want_cs = NULL, *want_ci = NULL;
    __CPROVER_assume(obj != NULL && n <= LK_N);
    for (i = 0; i < LK_N; i++) { nodes[i] = malloc(sizeof(cJSON)); keys[i] = malloc(2); __CPROVER_assume(nodes[i] != NULL && keys[i] != NULL); keys[i][0] = (char)nondet_uchar(); keys[i][1] = 0; __CPROVER_assume(keys[i][0] != 0 && (unsigned char)keys[i][0] < 128); nodes[i]->string = keys[i]; }
    for (i = 0; i < LK_N; i++) if (i < n) { nodes[i]->next = (i + 1 < n) ? nodes[i + 1] : NULL; nodes[i]->prev = (i > 0) ? nodes[i - 1] : nodes[n - 1]; }
    obj->child = n ? nodes[0] : NULL;
    name[0] = (char)nondet_uchar(); name[1] = 0; __CPROVER_assume(name[0] != 0 && (unsigned char)name[0] < 128);
    for (i = 0; i < LK_N; i++) if (i < n) { if (want_cs == NULL && keys[i][0] == name[0]) want_cs = nodes[i]; if (want_ci == NULL && fold(keys[i][0]) == fold(name[0])) want_ci = nodes[i]; }

    __CPROVER_assert(cJSON_GetArraySize(obj) == (int)n && cJSON_GetArraySize(NULL) == 0, "C06 size query");
    __CPROVER_assert(cJSON_GetArrayItem(obj, idx) == ((idx >= 0 && (unsigned)idx < n) ? nodes[idx < LK_N && idx >= 0 ? idx : 0] : NULL), "C06 index query: k-th child, NULL out of range or negative");
    __CPROVER_assert(cJSON_GetArrayItem(NULL, idx) == NULL, "C06 index query on NULL");
    __CPROVER_assert(cJSON_GetObjectItemCaseSensitive(obj, name) == want_cs, "C06 case-sensitive key query: first exact match");
    __CPROVER_assert(cJSON_GetObjectItem(obj, name) == want_ci, "C06 case-insensitive key query: first ASCII-case-folded match");
    __CPROVER_assert(cJSON_HasObjectItem(obj, name) == (want_ci != NULL), "C06 membership query");
    __CPROVER_assert(cJSON_GetObjectItem(obj, NULL) == NULL && cJSON_GetObjectItemCaseSensitive(NULL, name) == NULL && cJSON_GetObjectItem(NULL, name) == NULL, "C06 NULL arguments");
    /* iteration (cJSON_ArrayForEach) visits exactly the chain */
    { cJSON *e; unsigned cnt = 0; cJSON_ArrayForEach(e, obj) { __CPROVER_assert(cnt < n && e == nodes[cnt < LK_N ? cnt : 0], "C06 iteration order"); cnt++; } __CPROVER_assert(cnt == n, "C06 iteration visits every child once"); }
    VF_COVER(n == LK_N && want_cs == nodes[LK_N - 1]);
    VF_COVER(want_ci != NULL && want_cs == NULL);
    VF_COVER(idx == LK_N - 1 && n == LK_N);
}
