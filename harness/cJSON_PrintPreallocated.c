#include "cjson_tu.h"
void h_cJSON_PrintPreallocated(void)
{
    cJSON *i; char *b; int len; cJSON_bool f; cJSON_bool r;
    VF_INIT(); g_wb_calls = 0; g_pr_calls = 0; g_disp = D_NONE;
    r = cJSON_PrintPreallocated(i, b, len, f);
    VF_COVER(r); VF_COVER(!r && g_wb_calls == 1); VF_COVER(!r && g_wb_calls == 0);
}
