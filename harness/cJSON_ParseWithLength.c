#include "cjson_tu.h"
void h_cJSON_ParseWithLength(void)
{
    const char *v; size_t n; cJSON *r;
    VF_INIT(); g_pl_calls = 0;
    r = cJSON_ParseWithLength(v, n);
    VF_COVER(r != NULL && n > 3);
    VF_COVER(r == NULL);
}
