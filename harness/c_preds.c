/* type predicates, value getters and print_string (specs/c_preds.h) */
#include "cjson_tu.h"
#include "c_preds.h"
void PD_H(void)
{
    const cJSON *i; printbuffer *p;
    VF_INIT();
#if PD_KIND == 0
    { cJSON_bool r = PD_FN(i); VF_COVER(r == 1); VF_COVER(r == 0 && i != NULL); VF_COVER(i == NULL); }
#elif PD_KIND == 1
    { char *r = cJSON_GetStringValue(i); VF_COVER(r != NULL); VF_COVER(r == NULL && i != NULL); VF_COVER(i == NULL); }
#elif PD_KIND == 2
    { double r = cJSON_GetNumberValue(i); VF_COVER(r == 1.5); VF_COVER(__CPROVER_isnand(r) && i != NULL); VF_COVER(i == NULL); }
#elif PD_KIND == 4
    { const char *k; cJSON_bool r; g_fwp.pub_calls = 0; r = cJSON_HasObjectItem(i, k); VF_COVER(r == 1); VF_COVER(r == 0); VF_COVER(g_fwp.pub_calls == 1); }
#else
    { cJSON_bool r; g_ps.calls = 0; r = print_string(i, p); VF_COVER(r == 1); VF_COVER(r == 0); VF_COVER(g_ps.calls == 1); }
#endif
}
