/* cJSON_Duplicate / cJSON_Duplicate_rec, bounded unit (B): every tree of <= 4 nodes / depth <= 2 (symbolic types, flags, values, 1-byte strings),
 * recursive and non-recursive, allocator may refuse every request.  (C11) equal field by field, fully independent (no shared owned block,
 * only constant keys shared), references become owned copies, no sibling links on the copy's root, well-formed child chains, source untouched;
 * (C08) NULL leaves nothing allocated. */
#define VF_ALLOC_CONCRETE 4
#include "cjson_tu.h"
#include "tree.h"
static void chk_node(const cJSON *src, const cJSON *cp, const char *srckey, const char *srcvs)
{
    __CPROVER_assert(cp != NULL && cp != src, "C11 every node is a fresh node");
    __CPROVER_assert(cp->type == (src->type & ~cJSON_IsReference), "C11 same type; references inside the source become owned copies");
    __CPROVER_assert(cp->valueint == src->valueint && (cp->valuedouble == src->valuedouble || __CPROVER_isnand(src->valuedouble)), "C11 same number");
    if (srcvs == NULL) { __CPROVER_assert(cp->valuestring == NULL, "C11 no string stays no string"); }
    else { __CPROVER_assert(cp->valuestring != NULL && cp->valuestring != srcvs && cp->valuestring[0] == srcvs[0] && cp->valuestring[1] == 0, "C11 string copied into a different block"); }
    if (srckey == NULL) { __CPROVER_assert(cp->string == NULL, "C11 no key stays no key"); }
    else if (src->type & cJSON_StringIsConst) { __CPROVER_assert(cp->string == srckey, "C11 only constant keys remain shared"); }
    else { __CPROVER_assert(cp->string != NULL && cp->string != srckey && cp->string[0] == srckey[0] && cp->string[1] == 0, "C11 owned key copied into a different block"); }
}
void h_duplicate_b(void)
{
    struct t_tree t; cJSON *root, *cp; cJSON snap[T_MAXNODES]; unsigned i; cJSON_bool recurse = nondet_bool();
    VF_INIT();
    global_hooks.allocate = vf_alloc; global_hooks.deallocate = vf_free; global_hooks.reallocate = NULL;
    root = t_build(&t, 1);
    for (i = 0; i < T_MAXNODES; i++) { if (i < t.count) snap[i] = *t.node[i]; }

    cp = cJSON_Duplicate(root, recurse);

    for (i = 0; i < T_MAXNODES; i++) { if (i < t.count) { cJSON *n = t.node[i];
        __CPROVER_assert(n->next == snap[i].next && n->prev == snap[i].prev && n->child == snap[i].child && n->type == snap[i].type && n->valuestring == snap[i].valuestring && n->string == snap[i].string && n->valueint == snap[i].valueint, "C11 the source is never modified"); } }
    if (cp == NULL) { __CPROVER_assert(g_live == NULL, "C11 C08 a refused duplicate leaves nothing allocated"); VF_COVER(g_hook_allocs >= 1); }
    else
    {
        chk_node(root, cp, t.key[0], t.vs[0]);
        __CPROVER_assert(cp->next == NULL && cp->prev == NULL, "C11 the copy has no sibling links");
        if (!recurse || t.nchildren == 0) { __CPROVER_assert(cp->child == NULL, "C11 non-recursive duplicate copies the node alone"); }
        else
        {
            cJSON *c1 = cp->child, *c2;
            chk_node(t.node[1], c1, t.key[1], t.vs[1]);
            if (t.nchildren == 1) { __CPROVER_assert(c1->next == NULL && c1->prev == c1, "C11 single child: back link designates itself"); }
            else
            {
                c2 = c1->next;
                chk_node(t.node[2], c2, t.key[2], t.vs[2]);
                __CPROVER_assert(c2->prev == c1 && c2->next == NULL && c1->prev == c2, "C11 children in order, back links mirror, first child's back link designates the last");
                __CPROVER_assert(c2->child == NULL, "C11 leaf stays leaf");
            }
            if (t.ngrand == 1)
            {
                cJSON *g = c1->child;
                chk_node(t.node[t.nchildren + 1], g, t.key[t.nchildren + 1], t.vs[t.nchildren + 1]);
                __CPROVER_assert(g->next == NULL && g->prev == g && g->child == NULL, "C11 grandchild chain well-formed");
            }
            else { __CPROVER_assert(c1->child == NULL, "C11 leaf stays leaf"); }
        }
        VF_COVER(recurse);
        VF_COVER(!recurse);
    }
    __CPROVER_assert(cJSON_Duplicate(NULL, recurse) == NULL, "C11 NULL source");
}
