#include "cjson_tu.h"
void h_compare_double(void)
{
    double a, b;
    cJSON_bool r = compare_double(a, b);
    VF_COVER(r && a != b);
    VF_COVER(!r && FIN(a) && FIN(b));
    VF_COVER(!r && !FIN(a));
}
