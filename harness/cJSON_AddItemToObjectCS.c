#include "cjson_tu.h"
void h_cJSON_AddItemToObjectCS(void)
{
    cJSON *o, *i; const char *s; cJSON_bool r;
    VF_INIT(); g_aito_calls = 0;
    r = cJSON_AddItemToObjectCS(o, s, i);
    VF_COVER(r);
}
