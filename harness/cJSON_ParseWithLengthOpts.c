/* parse_value and cJSON_Delete replaced by contracts; skip_utf8_bom, buffer_skip_whitespace (loop contract), cJSON_New_Item inlined */
#include "cjson_tu.h"
void h_cJSON_ParseWithLengthOpts(void)
{
    const char *v; size_t n; const char **e; cJSON_bool rnt;
    cJSON *r;
    VF_INIT();
    g_disp = D_NONE; g_del_calls = 0;
    r = cJSON_ParseWithLengthOpts(v, n, e, rnt);
    VF_COVER(r != NULL && rnt && g_pv_end + 3 < n);
    VF_COVER(r != NULL && !rnt);
    VF_COVER(r == NULL && g_disp == D_VALUE && g_disp_ret && rnt);
    VF_COVER(r == NULL && g_disp == D_VALUE && !g_disp_ret);
    VF_COVER(r == NULL && g_disp == D_NONE && n > 0);
}
