/* parse_object skeleton: cJSON_New_Item, parse_string, parse_value, cJSON_Delete, buffer_skip_whitespace replaced by callee views; member loop unwound 3 times */
#include "cjson_tu.h"
void h_parse_object(void)
{
    cJSON *item; parse_buffer *b; cJSON_bool r;
    VF_INIT(); g_nit_calls = 0; g_pv_calls = 0; g_del_calls = 0;
    r = parse_object(item, b);
    VF_COVER(r && g_nit_calls == 0);
    VF_COVER(r && g_nit_calls == 2);
    VF_COVER(!r && g_nit_calls == 2 && g_pv_calls == 3);
    VF_COVER(!r && g_nit_calls == 1 && g_pv_calls == 2 && g_pvl[1].ok);
    VF_COVER(!r && g_nit_calls == 0 && g_pv_calls == 0);
}
