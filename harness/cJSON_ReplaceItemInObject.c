#include "cjson_tu.h"
void h_cJSON_ReplaceItemInObject(void)
{
    cJSON *o, *n; const char *s; cJSON_bool r;
    VF_INIT(); g_fwr.rio_calls = 0;
    r = cJSON_ReplaceItemInObject(o, s, n);
    VF_COVER(r);
}
