/* cJSON_ReplaceItemViaPointer with cJSON_Delete replaced by its contract (call logged): lists of every length, every position */
#include "cjson_tu.h"
#include "window.h"
void h_w_replace(void)
{
    cJSON *rep = malloc(sizeof(cJSON));
    cJSON *item;
    cJSON_bool r;
    int mode = nondet_int();
    __CPROVER_assume(rep != NULL);
    VF_INIT();
    __CPROVER_assume(HOOKS_OK(global_hooks));
    w_build(1);
    w_poison();
    item = w_nodes[w_k];
    rep->next = NULL; rep->prev = NULL;     /* ownership rule: the replacement is not attached anywhere */
    g_del_calls = 0;
    if (mode == 1)
    {   /* refused: NULL parent / item / replacement, or an empty parent */
        int c = nondet_int();
        cJSON *old_child = w_parent->child;
        if (c == 0) r = cJSON_ReplaceItemViaPointer(NULL, item, rep);
        else if (c == 1) r = cJSON_ReplaceItemViaPointer(w_parent, NULL, rep);
        else if (c == 2) r = cJSON_ReplaceItemViaPointer(w_parent, item, NULL);
        else { w_parent->child = NULL; old_child = NULL; r = cJSON_ReplaceItemViaPointer(w_parent, item, rep); }
        __CPROVER_assert(!r && g_del_calls == 0, "C06 C07 refused replace deletes nothing");
        __CPROVER_assert(w_parent->child == old_child && rep->next == NULL && rep->prev == NULL, "C06 refused replace changes nothing");
        VF_COVER(!r);
        return;
    }
    if (mode == 2)
    {   /* replacing an item by itself is a no-op that succeeds */
        r = cJSON_ReplaceItemViaPointer(w_parent, item, item);
        __CPROVER_assert(r && g_del_calls == 0 && w_parent->child == w_nodes[0], "C06 C07 self replacement: nothing deleted");
        VF_COVER(r);
        return;
    }
    r = cJSON_ReplaceItemViaPointer(w_parent, item, rep);
    __CPROVER_assert(r, "C06 replace succeeds");
    __CPROVER_assert(g_del_calls == 1 && g_del_arg == item, "C07 the replaced item is deleted exactly once");
    /* the replacement sits exactly where the item was */
    if (w_k == 0) { __CPROVER_assert(w_parent->child == rep, "C06 replacement is the new first child"); }
    else { __CPROVER_assert(w_parent->child == w_nodes[0] && w_nodes[w_k - 1]->next == rep && rep->prev == w_nodes[w_k - 1], "C06 predecessor links to the replacement"); }
    if (w_k + 1 < w_n) { __CPROVER_assert(rep->next == w_nodes[w_k + 1] && w_nodes[w_k + 1]->prev == rep, "C06 successor links back to the replacement"); }
    else { __CPROVER_assert(rep->next == NULL, "C06 forward links end in NULL"); }
    {
        cJSON *head = (w_k == 0) ? rep : w_nodes[0];
        cJSON *tail = (w_k + 1 == w_n) ? rep : w_nodes[w_n - 1];
        __CPROVER_assert(head->prev == tail && tail->next == NULL, "C06 first child's back link designates the last child");
    }
    VF_COVER(w_n == 1);
    VF_COVER(w_n == 6 && w_k == 5);
    VF_COVER(w_n == 6 && w_k == 2);
    VF_COVER(w_n == 3 && w_k == 0);
}
