/* parse_string, bounded unit (B): input buffer of exactly PS_N bytes, every byte symbolic; allocator with concrete block sizes
 * (DESIGN 6: a byte-writing loop into a block of symbolic size does not terminate in CBMC).  The result is compared with a reference
 * decoder written from RFC 8259 section 7 (escape table, \uXXXX through the pure spec function spec_utf16). */
#ifndef PS_N
#define PS_N 8
#endif
#define VF_ALLOC_CONCRETE (PS_N + 1)
#include "cjson_tu.h"

static unsigned char ref_out[PS_N + 4];
/* returns 1 and sets *out_len / *end (index of the closing quote) if content[0..n) starts with a string literal that must be accepted */
static int ref_decode(const unsigned char *c, size_t n, size_t *out_len, size_t *end)
{
    size_t i = 1, o = 0;
    if (n < 1 || c[0] != '\"') { return 0; }
    while (i < n && c[i] != '\"')
    {
        if (c[i] != '\\') { ref_out[o++] = c[i]; i++; continue; }
        if (i + 1 >= n) { return 0; }                       /* backslash is the last byte */
        switch (c[i + 1])
        {
            case 'b': ref_out[o++] = '\b'; i += 2; break;
            case 'f': ref_out[o++] = '\f'; i += 2; break;
            case 'n': ref_out[o++] = '\n'; i += 2; break;
            case 'r': ref_out[o++] = '\r'; i += 2; break;
            case 't': ref_out[o++] = '\t'; i += 2; break;
            case '\"': case '\\': case '/': ref_out[o++] = c[i + 1]; i += 2; break;
            case 'u':
            {
                /* the literal must lie completely before the closing quote: the closing quote is found first (escapes skipped pairwise) */
                size_t q = i, k;
                struct u16_spec s;
                while (q < n && c[q] != '\"') { if (c[q] == '\\') { q++; } q++; }
                if (q >= n) { return 0; }
                s = spec_utf16(c + i, q - i);
                if (s.ret == 0) { return 0; }
                for (k = 0; k < s.len; k++) { ref_out[o++] = s.b[k]; }
                i += s.ret;
                break;
            }
            default: return 0;                              /* unknown escape */
        }
    }
    if (i >= n) { return 0; }                               /* unterminated */
    *out_len = o; *end = i;
    return 1;
}

void h_parse_string_b(void)
{
    cJSON *item = malloc(sizeof(cJSON));
    parse_buffer *b = malloc(sizeof(parse_buffer));
    unsigned char *content = malloc(PS_N);
    cJSON before; unsigned char snap[PS_N];
    size_t i, out_len = 0, end = 0, n = nondet_size_t();
    int want; cJSON_bool r;
    __CPROVER_assume(item != NULL && b != NULL && content != NULL);
    __CPROVER_assume(n >= 1 && n <= PS_N);
    /* exact-size buffer: the first n bytes are the input, reading byte n is flagged through the length check below */
    VF_INIT();
    b->content = content; b->length = n; b->offset = 0; b->depth = 0;
    b->hooks.allocate = vf_alloc; b->hooks.deallocate = vf_free; b->hooks.reallocate = NULL;
    for (i = 0; i < PS_N; i++) { content[i] = nondet_uchar(); snap[i] = content[i]; }   /* explicit assignments: the bytes show up in counterexample traces (native replay) */
    before = *item;
    want = ref_decode(content, n, &out_len, &end);

    r = parse_string(item, b);

    for (i = 0; i < PS_N; i++) { __CPROVER_assert(content[i] == snap[i], "C01 input never written"); }
    __CPROVER_assert(b->offset <= b->length && b->length == n && b->content == content, "C01 buffer invariant preserved");
    if (!r)
    {
        __CPROVER_assert(g_live == NULL, "C03 C08 rejection leaves no allocation behind");
        __CPROVER_assert(item->type == before.type && item->valuestring == before.valuestring, "C03 item untouched on rejection");
        if (!want) { VF_COVER(n == PS_N); }
    }
    else
    {
        __CPROVER_assert(want, "C03 only well-formed string literals are accepted (unterminated, bad escape, bad \\u, lone surrogate rejected)");
        __CPROVER_assert(item->type == cJSON_String && item->valuestring != NULL, "C02 string node");
        __CPROVER_assert(b->offset == end + 1, "C02 C10 parse position just behind the closing quote");
        __CPROVER_assert(__CPROVER_OBJECT_SIZE(item->valuestring) >= out_len + 1, "C01 output block large enough");
        for (i = 0; i < PS_N; i++) { if (i < out_len) { __CPROVER_assert((unsigned char)item->valuestring[i] == ref_out[i], "C02 decoded bytes are exactly the bytes the literal denotes"); } }
        __CPROVER_assert(item->valuestring[out_len] == '\0', "C02 decoded string is terminated");
        __CPROVER_assert(g_live == NULL || g_live == (void*)item->valuestring, "C08 only the result block remains");
        VF_COVER(out_len == PS_N - 2);
        VF_COVER(out_len + 7 <= n && out_len >= 1);
    }
    /* completeness: a literal the reference accepts is rejected only when the allocator refused */
    if (want && !r) { __CPROVER_assert(g_hook_allocs == 0, "C02 acceptable literal rejected only on allocation failure"); }
}
