#include "cjson_tu.h"
void h_cJSON_DetachItemFromObject(void)
{
    cJSON *o; const char *s; cJSON *r;
    VF_INIT(); g_fwp.pub_calls = 0; g_fwd.dvp_calls = 0;
    r = cJSON_DetachItemFromObject(o, s);
    VF_COVER(r != NULL);
}
