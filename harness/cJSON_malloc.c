#include "cjson_tu.h"
void h_cJSON_malloc(void)
{
    size_t n; void *r;
    VF_INIT();
    r = cJSON_malloc(n);
    VF_COVER(r != NULL); VF_COVER(r == NULL);
}
