#include "cjson_tu.h"
void h_cJSON_GetObjectItem(void)
{
    const cJSON *o; const char *s; cJSON *r;
    VF_INIT(); g_goi_calls = 0; g_goi_ret = nondet_bool() ? NULL : malloc(sizeof(cJSON));
    r = cJSON_GetObjectItem(o, s);
    VF_COVER(r != NULL);
}
