/* cJSON_Duplicate_rec at the nesting limit (C11: "structures nested deeper than CJSON_CIRCULAR_LIMIT, including cyclic ones, are refused with NULL without
 * leaking or overflowing the stack"): for EVERY node that has a child, a call at depth >= CJSON_CIRCULAR_LIMIT returns NULL without recursing (the child may
 * even be the node itself: a cycle) and releases what it allocated; one level below the limit a leaf child is still copied. Loop-free => complete. */
#define VF_ALLOC_CONCRETE 4
#define VF_BUILTIN_STRINGS
#define VF_BUILTIN_MEMCPY
#include "cjson_tu.h"
void h_duplicate_depth(void)
{
    cJSON *item = malloc(sizeof(cJSON)), *leaf = malloc(sizeof(cJSON)), *r; size_t depth = nondet_size_t(); _Bool cyc = nondet_bool();
    __CPROVER_assume(item != NULL && leaf != NULL);
    VF_INIT();
    global_hooks.allocate = vf_alloc; global_hooks.deallocate = vf_free; global_hooks.reallocate = NULL;
    item->type = nondet_int(); item->valuestring = NULL; item->string = NULL; item->next = item->prev = NULL; item->valueint = 0; item->valuedouble = 0;
    leaf->type = cJSON_NULL; leaf->valuestring = NULL; leaf->string = NULL; leaf->next = NULL; leaf->prev = leaf; leaf->child = NULL; leaf->valueint = 0; leaf->valuedouble = 0;
    item->child = cyc ? item : leaf;          /* a cycle or an ordinary child */
    __CPROVER_assume(depth >= CJSON_CIRCULAR_LIMIT || (!cyc && depth + 1 == CJSON_CIRCULAR_LIMIT));
    r = cJSON_Duplicate_rec(item, depth, 1);
    if (depth >= CJSON_CIRCULAR_LIMIT)
    {
        __CPROVER_assert(r == NULL, "C11 a node with a child at the nesting limit is refused");
        __CPROVER_assert(g_live == NULL, "C11 C08 the refused duplicate leaves nothing allocated");
        VF_COVER(cyc);
    }
    else
    {
        if (r != NULL) { __CPROVER_assert(r->child != NULL && r->child != leaf && r->child->child == NULL, "C11 one level below the limit a leaf child is still copied"); VF_COVER(1); }
    }
    __CPROVER_assert(item->child == (cyc ? item : leaf), "C11 source untouched");
}
