/* cJSON_InsertItemInArray with get_array_item replaced by its contract (returns the designated node): lists of every length */
#include "cjson_tu.h"
#include "window.h"
void h_w_insert(void)
{
    cJSON *newitem = malloc(sizeof(cJSON));
    cJSON_bool r;
    int which = nondet_int();
    int mode = nondet_int();
    __CPROVER_assume(newitem != NULL);
    w_build(0);
    newitem->next = NULL; newitem->prev = NULL;
    g_gai_calls = 0;
    if (mode == 1)
    {   /* refused: negative index, NULL item, or inserting a container into itself; nothing may change */
        int c = nondet_int();
        cJSON *old_child;
        w_k = 0; w_poison();
        old_child = w_parent->child;
        g_gai_ret = (w_n > 0 && nondet_bool()) ? w_nodes[0] : NULL;
        if (c == 0) { __CPROVER_assume(which < 0); r = cJSON_InsertItemInArray(w_parent, which, newitem); }
        else if (c == 1) { r = cJSON_InsertItemInArray(w_parent, which, NULL); }
        else { r = cJSON_InsertItemInArray(w_parent, which, w_parent); }
        __CPROVER_assert(!r, "C06 refused: negative index, NULL item or container inserted into itself");
        __CPROVER_assert(w_parent->child == old_child && newitem->next == NULL && newitem->prev == NULL, "C06 refused insert changes nothing");
        if (w_n > 0) { __CPROVER_assert(w_nodes[0]->prev == w_nodes[w_n - 1] && w_nodes[w_n - 1]->next == NULL && (w_n < 2 || w_nodes[0]->next == w_nodes[1]), "C06 refused insert leaves the chain alone"); }
        VF_COVER(!r && c == 2);
        return;
    }
    __CPROVER_assume(which >= 0);
    if (nondet_bool() || w_n == 0)
    {   /* index >= size: get_array_item yields NULL -> append (window head/tail) */
        w_k = 0; w_poison();
        g_gai_ret = NULL;
        r = cJSON_InsertItemInArray(w_parent, which, newitem);
        __CPROVER_assert(r && g_gai_calls == 1 && g_gai_array == w_parent && g_gai_index == (size_t)which, "C06 looks up the index once");
        if (w_n == 0) { __CPROVER_assert(w_parent->child == newitem && newitem->prev == newitem && newitem->next == NULL, "C06 insert into empty array"); }
        else { __CPROVER_assert(w_nodes[w_n - 1]->next == newitem && newitem->prev == w_nodes[w_n - 1] && newitem->next == NULL && w_nodes[0]->prev == newitem && w_parent->child == w_nodes[0], "C06 index past the end appends"); }
        VF_COVER(w_n == 0);
        VF_COVER(w_n == 5);
        return;
    }
    /* insert before node k */
    w_poison();
    g_gai_ret = w_nodes[w_k];
    r = cJSON_InsertItemInArray(w_parent, which, newitem);
    __CPROVER_assert(r, "C06 insert succeeds");
    __CPROVER_assert(newitem->next == w_nodes[w_k] && w_nodes[w_k]->prev == newitem, "C06 new item precedes the indexed node");
    if (w_k == 0)
    {
        __CPROVER_assert(w_parent->child == newitem && newitem->prev == w_nodes[w_n - 1], "C06 new first child; its back link designates the last child");
        __CPROVER_assert(w_nodes[w_n - 1]->next == NULL, "C06 forward links end in NULL");
    }
    else
    {
        __CPROVER_assert(w_parent->child == w_nodes[0] && w_nodes[w_k - 1]->next == newitem && newitem->prev == w_nodes[w_k - 1], "C06 linked after the predecessor");
        __CPROVER_assert(w_nodes[0]->prev == w_nodes[w_n - 1] && w_nodes[w_n - 1]->next == NULL, "C06 head back link and tail untouched");
    }
    VF_COVER(w_k == 0 && w_n == 1);
    VF_COVER(w_k == 5);
    VF_COVER(w_k == 2 && w_n == 4);
}
