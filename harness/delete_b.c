/* cJSON_Delete, bounded unit (B): every tree of <= 4 nodes / depth <= 2 with symbolic types, reference and constant-key flags.
 * (C07) every owned block is released exactly once (CBMC's double-free obligations + count), borrowed memory - constant keys,
 * referenced strings, children of reference nodes - is neither released nor modified. */
#include "cjson_tu.h"
#include "tree.h"
void h_delete_b(void)
{
    struct t_tree t; cJSON *root; unsigned i; size_t expect = 0;
    _Bool reach[T_MAXNODES]; char kv[T_MAXNODES], vv[T_MAXNODES]; int ty[T_MAXNODES];
    VF_INIT();
    global_hooks.allocate = vf_alloc; global_hooks.deallocate = vf_free; global_hooks.reallocate = NULL;
    g_hook_frees = 0;
    root = t_build(&t, 1);
    /* which nodes does the root own?  children of a reference node are borrowed */
    reach[0] = 1;
    for (i = 1; i < T_MAXNODES; i++) reach[i] = 0;
    if (t.nchildren >= 1) reach[1] = OWNS_VS_T(t.node[0]);
    if (t.nchildren >= 2) reach[2] = OWNS_VS_T(t.node[0]);
    if (t.ngrand == 1) reach[t.nchildren + 1] = reach[1] && OWNS_VS_T(t.node[1]);
    for (i = 0; i < T_MAXNODES; i++)
    {
        if (i < t.count)
        {
            ty[i] = t.node[i]->type; kv[i] = t.key[i] ? t.key[i][0] : 0; vv[i] = t.vs[i] ? t.vs[i][0] : 0;
            if (reach[i]) { expect += 1 + ((t.vs[i] && OWNS_VS_T(t.node[i])) ? 1 : 0) + ((t.key[i] && OWNS_KEY_T(t.node[i])) ? 1 : 0); }
        }
    }
    cJSON_Delete(root);
    __CPROVER_assert(g_hook_frees == expect, "C07 exactly the owned blocks are released, each once");
    for (i = 0; i < T_MAXNODES; i++)
    {
        if (i < t.count)
        {
            if (!reach[i])
            {   /* borrowed subtree: untouched and still alive (reading a released block would fail a pointer obligation) */
                __CPROVER_assert(t.node[i]->type == ty[i], "C07 nodes behind a reference are never touched");
                if (t.key[i]) __CPROVER_assert(t.key[i][0] == kv[i], "C07 keys behind a reference are never touched");
                if (t.vs[i]) __CPROVER_assert(t.vs[i][0] == vv[i], "C07 strings behind a reference are never touched");
            }
            else
            {
                if (t.key[i] && !OWNS_KEY_T((cJSON*)&(cJSON){ .type = ty[i] })) __CPROVER_assert(t.key[i][0] == kv[i], "C07 constant keys are never released or modified");
                if (t.vs[i] && (ty[i] & cJSON_IsReference)) __CPROVER_assert(t.vs[i][0] == vv[i], "C07 referenced strings are never released or modified");
            }
        }
    }
    cJSON_Delete(NULL);
    VF_COVER(t.count == 4 && expect == 12);
    VF_COVER(t.count == 4 && expect == 1);
    VF_COVER(t.count == 1);
}
