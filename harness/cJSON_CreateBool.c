#include "cjson_tu.h"
void h_cJSON_CreateBool(void)
{
    cJSON_bool b; cJSON *r;
    VF_INIT();
    r = cJSON_CreateBool(b);
    VF_COVER(r != NULL); VF_COVER(r == NULL);
}
