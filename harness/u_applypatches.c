/* cJSONUtils_ApplyPatches / ...CaseSensitive under DFCC (S: patch array of <= 2 operations; apply_patch replaced by a logging view). */
#include "utils_tu.h"
void AP_H(void)
{
    cJSON *o; const cJSON *p; int r;
    VF_INIT(); g_ap.calls = 0;
    r = AP_FN(o, p);
    VF_COVER(r == 1 && g_ap.calls == 0); VF_COVER(r == 0 && g_ap.calls == 2); VF_COVER(r != 0 && g_ap.calls == 1 && g_ap_n == 2); VF_COVER(r == 0 && g_ap.calls == 0); VF_COVER(r != 0 && g_ap.calls == 2);
}
