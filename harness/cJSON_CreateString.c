#include "cjson_tu.h"
void h_cJSON_CreateString(void)
{
    const char *s; cJSON *r;
    VF_INIT(); g_dup_calls = 0; g_del_calls = 0; g_dup_ret = NULL;
    r = cJSON_CreateString(s);
    VF_COVER(r != NULL); VF_COVER(r == NULL);
}
