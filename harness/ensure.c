#include "cjson_tu.h"
void h_ensure(void)
{
    printbuffer *p; size_t needed; unsigned char *r;
    VF_INIT();
    r = ensure(p, needed);
    VF_COVER(r != NULL && g_hook_allocs > 0);
    VF_COVER(r != NULL && g_hook_allocs == 0);
    VF_COVER(r == NULL && g_hook_frees > 0);
    VF_COVER(r == NULL && g_hook_frees == 0);
}
