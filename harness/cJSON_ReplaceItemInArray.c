#include "cjson_tu.h"
void h_cJSON_ReplaceItemInArray(void)
{
    cJSON *a, *n; int w; cJSON_bool r;
    VF_INIT(); g_gai_calls = 0; g_rvp_calls = 0; g_gai_ret = nondet_bool() ? NULL : malloc(sizeof(cJSON));
    r = cJSON_ReplaceItemInArray(a, w, n);
    VF_COVER(r); VF_COVER(w < 0);
}
