#include "cjson_tu.h"
void h_update_offset(void)
{
    printbuffer *b;
    VF_INIT(); g_wb_calls = 0; g_pr_calls = 0; g_disp = D_NONE;
    update_offset(b);
    VF_COVER(1);
}
