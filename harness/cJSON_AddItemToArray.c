#include "cjson_tu.h"
void h_cJSON_AddItemToArray(void)
{
    cJSON *a, *i; cJSON_bool r;
    VF_INIT(); g_aita_calls = 0;
    r = cJSON_AddItemToArray(a, i);
    VF_COVER(r); 
}
