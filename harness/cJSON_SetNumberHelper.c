#include "cjson_tu.h"
void h_cJSON_SetNumberHelper(void)
{
    cJSON *o; double d, r;
    VF_INIT();
    r = cJSON_SetNumberHelper(o, d);
    VF_COVER(r > 1e10); VF_COVER(r < 0.5 && r > 0.1);
}
