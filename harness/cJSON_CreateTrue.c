#include "cjson_tu.h"
void h_cJSON_CreateTrue(void)
{
    cJSON *r;
    VF_INIT();
    r = cJSON_CreateTrue();
    VF_COVER(r != NULL); VF_COVER(r == NULL);
}
