/* cJSON_SetValuestring, bounded unit (B): old string <= 3 bytes, new string <= 4 bytes; references and non-strings refused;
 * in-place copy only when the new text fits and does not overlap; otherwise a new block and the old one released once; failure changes nothing. */
#define VF_ALLOC_CONCRETE 6
#define VF_BUILTIN_STRINGS
#define VF_BUILTIN_MEMCPY
#include "cjson_tu.h"
void h_setvaluestring_b(void)
{
    cJSON *o = malloc(sizeof(cJSON)); char *blk = malloc(12); char *old, *nw; size_t l1 = nondet_size_t(), l2 = nondet_size_t(), i, a = nondet_size_t(), b = nondet_size_t(); char *r; int ty; char snap[4];
    _Bool same_block = nondet_bool();
    __CPROVER_assume(o != NULL && blk != NULL && l1 <= 3 && l2 <= 4);
    if (same_block)
    {   /* both strings inside one block (the caller passes part of the item's own buffer or a neighbour): only meaningful when the new text fits */
        __CPROVER_assume(l2 <= l1 && a <= 7 && b <= 7 && (b + l2 < a || a + l1 < b));   /* disjoint and not adjacent: the documented condition for the in-place copy */
        old = blk + a; nw = blk + b;
    }
    else { old = malloc(4); nw = malloc(5); __CPROVER_assume(old != NULL && nw != NULL); }
    for (i = 0; i < 4; i++) { if (i <= l1) { old[i] = (i < l1) ? (char)nondet_uchar() : 0; if (i < l1) __CPROVER_assume(old[i] != 0); snap[i] = old[i]; } }
    for (i = 0; i < 5; i++) { if (i <= l2) { nw[i] = (i < l2) ? (char)nondet_uchar() : 0; if (i < l2) __CPROVER_assume(nw[i] != 0); } }
    for (i = 0; i < 4; i++) { if (i <= l1) snap[i] = old[i]; }
    VF_INIT();
    global_hooks.allocate = vf_alloc; global_hooks.deallocate = vf_free; global_hooks.reallocate = NULL;
    o->type = nondet_int(); __CPROVER_assume((o->type & ~(0xFF | cJSON_IsReference | cJSON_StringIsConst)) == 0);
    o->valuestring = nondet_bool() ? old : NULL; ty = o->type;
    r = cJSON_SetValuestring(nondet_bool() ? o : NULL, nondet_bool() ? nw : NULL);
    if (r == NULL)
    {
        __CPROVER_assert(o->valuestring == NULL || o->valuestring == old, "C06 C08 refused: the item keeps its string");
        for (i = 0; i < 4; i++) { if (i <= l1) __CPROVER_assert(old[i] == snap[i], "C06 C08 refused: the string is unchanged"); }
        __CPROVER_assert(g_live == NULL && g_hook_frees == 0, "C08 refused: nothing allocated remains, nothing released");
        VF_COVER((ty & cJSON_IsReference) != 0);
        VF_COVER(g_hook_allocs == 0 && (ty & 0xFF) == cJSON_String && !(ty & cJSON_IsReference) && l2 > l1);
    }
    else
    {
        __CPROVER_assert((ty & cJSON_String) && !(ty & cJSON_IsReference), "C06 C07 only owned strings are set (references refused)");
        __CPROVER_assert(r == o->valuestring, "C06 returns the item's string");
        for (i = 0; i < 5; i++) { if (i <= l2) __CPROVER_assert(r[i] == nw[i], "C06 the string now holds the new text"); }
        if (l2 <= l1) __CPROVER_assert(r == old && g_hook_allocs == 0 && g_hook_frees == 0, "C07 fits: copied in place, no allocation");
        if (same_block) __CPROVER_assert(l2 <= l1, "harness");
        else __CPROVER_assert(r != old && g_hook_frees == 1 && (g_live == NULL || g_live == (void*)r), "C07 longer: new block, old block released exactly once");
        VF_COVER(l2 > l1);
        VF_COVER(same_block && l2 == l1 && l1 == 3);
    }
}
