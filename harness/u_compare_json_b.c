/* compare_json (cJSON_Utils.c), bounded unit (B): the equality used by the JSON Patch "test" operation, by patch generation and by
 * merge-patch generation.  Two trees of concrete shape (root + CJ_NA / CJ_NB leaf children), symbolic types, numbers, 1-byte strings
 * and 1-byte keys, both case modes; compared with model equality of JSON values (arrays in order, objects as key/value sets).
 * compare_json may reorder object members (it sorts); afterwards both trees must still be healthy sibling chains with the same members. */
#include "both_tu.h"
#include "tree.h"
static int json_type(int t) { t &= 0xFF; return t == cJSON_False || t == cJSON_True || t == cJSON_NULL || t == cJSON_Number || t == cJSON_String || t == cJSON_Array || t == cJSON_Object; }
static int keyeq(const char *a, const char *b, cJSON_bool cs)
{
    int x, y;
    x = (unsigned char)a[0]; y = (unsigned char)b[0];
    if (!cs) { if (x >= 'A' && x <= 'Z') x += 32; if (y >= 'A' && y <= 'Z') y += 32; }
    return x == y;
}
static int leaf_eq(const cJSON *a, const cJSON *b)
{
    int t;
    if ((a->type & 0xFF) != (b->type & 0xFF)) return 0;
    t = a->type & 0xFF;
    if (t == cJSON_False || t == cJSON_True || t == cJSON_NULL) return 1;
    if (t == cJSON_Number) return a->valueint == b->valueint && (SPEC_DEQ(a->valuedouble, b->valuedouble) || (__CPROVER_isinfd(a->valuedouble) && a->valuedouble == b->valuedouble));
    if (t == cJSON_String) return a->valuestring[0] == b->valuestring[0];
    return 1;   /* empty array / object (leaves have no children here) */
}
static void constrain(struct t_tree *t, cJSON_bool cs)
{
    unsigned i;
    for (i = 0; i < 3; i++)
    {
        if (i < t->count)
        {
            cJSON *n = t->node[i]; double d = n->valuedouble;
            __CPROVER_assume(json_type(n->type));
            __CPROVER_assume(d == 0.0 || d == 1.0 || d == 1.0 + DBL_EPSILON || __CPROVER_isinfd(d));
            __CPROVER_assume((n->type & 0xFF) != cJSON_String || n->valuestring != NULL);
            __CPROVER_assume(i == 0 || ((t->node[i]->type & 0xFF) != cJSON_Array && (t->node[i]->type & 0xFF) != cJSON_Object) || 1);
        }
    }
    /* precondition of the property: members of an object have keys, distinct under the comparison's case rule */
    if ((t->node[0]->type & 0xFF) == cJSON_Object)
    {
        for (i = 1; i <= 2; i++) if (i <= t->nchildren) __CPROVER_assume(t->key[i] != NULL);
        if (t->nchildren == 2) __CPROVER_assume(!keyeq(t->key[1], t->key[2], cs));
    }
}
/* the chain under root is healthy and consists of exactly the nodes 1..n of the tree (any order) */
static int chain_ok(const struct t_tree *t)
{
    const cJSON *r = t->node[0];
    if (t->nchildren == 0) return r->child == NULL;
    if (t->nchildren == 1) return r->child == t->node[1] && r->child->next == NULL && r->child->prev == r->child;
    return (r->child == t->node[1] || r->child == t->node[2]) && r->child->next != NULL && r->child->next != r->child &&
        (r->child->next == t->node[1] || r->child->next == t->node[2]) && r->child->next->next == NULL && r->child->next->prev == r->child && r->child->prev == r->child->next;
}
void h_u_compare_json_b(void)
{
    struct t_tree ta, tb; cJSON *a, *b; cJSON_bool cs = nondet_bool(), r; int want; unsigned i; int t;
    VF_INIT();
    a = t_build_n(&ta, 0, CJ_NA, 0); b = t_build_n(&tb, 0, CJ_NB, 0);
    constrain(&ta, cs); constrain(&tb, cs);
    t = a->type & 0xFF;
    if ((a->type & 0xFF) != (b->type & 0xFF)) want = 0;
    else if (t == cJSON_Array)
    {
        want = (ta.nchildren == tb.nchildren);
        for (i = 1; i <= 2; i++) if (want && i <= ta.nchildren) want = leaf_eq(ta.node[i], tb.node[i]);
    }
    else if (t == cJSON_Object)
    {
        want = (ta.nchildren == tb.nchildren);
        for (i = 1; i <= 2; i++)
        {
            if (want && i <= ta.nchildren)
            {
                const cJSON *m = NULL; unsigned j;
                for (j = 1; j <= 2; j++) if (j <= tb.nchildren && m == NULL && keyeq(ta.key[i], tb.key[j], cs)) m = tb.node[j];
                want = (m != NULL) && leaf_eq(ta.node[i], m);
            }
        }
    }
    else want = leaf_eq(a, b);
    r = compare_json(a, b, cs);
    __CPROVER_assert((r != 0) == (want != 0), "C16 C17 C18 compare_json is true exactly when both values are equal (arrays in order, objects as key/value sets of the same size)");
    __CPROVER_assert(chain_ok(&ta) && chain_ok(&tb), "C16 C19 both trees are still healthy sibling chains with the same members");
    __CPROVER_assert(!compare_json(a, NULL, cs) && !compare_json(NULL, b, cs), "C16 false when either argument is missing");
    VF_COVER((CJ_NA != CJ_NB || r) && t == cJSON_Object);
    VF_COVER((CJ_NA != CJ_NB || r) && t == cJSON_Array);
    VF_COVER((CJ_NA + CJ_NB == 0 || !r) && t == cJSON_Object && (b->type & 0xFF) == cJSON_Object);
}
