/* Poisoned-window list builder (DESIGN 1.4-W).  A chain of n nodes (n symbolic, <= MAXN) is built under `parent`; every node that is
 * not in the window {head, prev-of-k, k, next-of-k, tail} is released before the call, so any access to it fails a pointer obligation.
 * All aliasing patterns of the window occur for some n <= MAXN; nodes of a longer list are, like the poisoned ones, never touched. */
#ifndef VF_WINDOW_H
#define VF_WINDOW_H
#define MAXN 6
static cJSON *w_nodes[MAXN];
static cJSON *w_parent;
static unsigned w_n, w_k;
static void w_build(unsigned min_n)
{
    unsigned i;
    w_parent = malloc(sizeof(cJSON));
    __CPROVER_assume(w_parent != NULL);
    w_n = nondet_uint_(); w_k = nondet_uint_();
    __CPROVER_assume(w_n >= min_n && w_n <= MAXN && (w_n == 0 ? w_k == 0 : w_k < w_n));
    for (i = 0; i < MAXN; i++) { w_nodes[i] = malloc(sizeof(cJSON)); __CPROVER_assume(w_nodes[i] != NULL); }
    for (i = 0; i < MAXN; i++)
    {
        if (i < w_n)
        {
            w_nodes[i]->next = (i + 1 < w_n) ? w_nodes[i + 1] : NULL;
            w_nodes[i]->prev = (i > 0) ? w_nodes[i - 1] : w_nodes[w_n - 1];
        }
    }
    w_parent->child = (w_n > 0) ? w_nodes[0] : NULL;
}
static void w_poison(void)
{
    unsigned i;
    for (i = 0; i < MAXN; i++)
    {
        _Bool in_window = (i == 0) || (i + 1 == w_k) || (i == w_k) || (i == w_k + 1) || (i + 1 == w_n);
        if (i >= w_n || !in_window) { free(w_nodes[i]); }
    }
}
/* expected sequence after the operation is described by the harness through seq[]/m; check the links of the window nodes only */
#define IN_WINDOW(i) ((i) < w_n && ((i) == 0 || (i) + 1 == w_k || (i) == w_k || (i) == w_k + 1 || (i) + 1 == w_n))
#endif
