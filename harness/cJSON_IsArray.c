#include "cjson_tu.h"
#include "c_isarray.h"
void h_cJSON_IsArray(void)
{
    const cJSON *i; cJSON_bool r;
    VF_INIT();
    r = cJSON_IsArray(i);
    VF_COVER(r == 1); VF_COVER(r == 0);
}
