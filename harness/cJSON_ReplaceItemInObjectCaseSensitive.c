#include "cjson_tu.h"
void h_cJSON_ReplaceItemInObjectCaseSensitive(void)
{
    cJSON *o, *n; const char *s; cJSON_bool r;
    VF_INIT(); g_fwr.rio_calls = 0;
    r = cJSON_ReplaceItemInObjectCaseSensitive(o, s, n);
    VF_COVER(r);
}
