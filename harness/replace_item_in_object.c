/* replace_item_in_object with cJSON_strdup, cJSON_free, get_object_item, cJSON_ReplaceItemViaPointer replaced by callee views */
#include "cjson_tu.h"
void h_replace_item_in_object(void)
{
    cJSON *o, *rep; const char *s; cJSON_bool cs, r;
    VF_INIT(); g_dup_calls = 0; g_goi_calls = 0; g_rvp_calls = 0; g_free_calls = 0; g_dup_ret = NULL;
    g_goi_ret = nondet_bool() ? NULL : malloc(sizeof(cJSON));
    r = replace_item_in_object(o, s, rep, cs);
    VF_COVER(r && g_alias);
    VF_COVER(r && g_free_calls == 1);
    VF_COVER(!r && g_dup_calls == 1 && g_dup_ret == NULL);
    VF_COVER(!r && g_rvp_calls == 1);
    VF_COVER(!r && g_dup_calls == 0);
}
