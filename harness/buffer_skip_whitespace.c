#include "cjson_tu.h"
void h_buffer_skip_whitespace(void)
{
    parse_buffer *b;
    parse_buffer *r = buffer_skip_whitespace(b);
    VF_COVER(r == NULL);
    VF_COVER(r != NULL && r->length > 5 && r->offset + 1 == r->length);
    VF_COVER(r != NULL && r->offset > 5 && r->offset + 1 < r->length);
}
