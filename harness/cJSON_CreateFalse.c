#include "cjson_tu.h"
void h_cJSON_CreateFalse(void)
{
    cJSON *r;
    VF_INIT();
    r = cJSON_CreateFalse();
    VF_COVER(r != NULL); VF_COVER(r == NULL);
}
