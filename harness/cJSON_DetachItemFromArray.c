#include "cjson_tu.h"
void h_cJSON_DetachItemFromArray(void)
{
    cJSON *a; int w; cJSON *r;
    VF_INIT(); g_gai_calls = 0; g_fwd.dvp_calls = 0; g_gai_ret = nondet_bool() ? NULL : malloc(sizeof(cJSON));
    r = cJSON_DetachItemFromArray(a, w);
    VF_COVER(r != NULL); VF_COVER(w < 0);
}
