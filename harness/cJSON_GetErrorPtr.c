/* the code computes json + position also for json == NULL, position == 0 (the state after a successful parse);
 * CBMC's pointer-overflow check treats NULL + 0 as an error, so that check is off in this unit (units.py: checks_off) */
#include "cjson_tu.h"
void h_cJSON_GetErrorPtr(void)
{
    size_t n = nondet_size_t();
    const char *r;
    if (nondet_bool()) { global_error.json = NULL; }
    else { __CPROVER_assume(n >= 1 && n <= VF_MAXLEN); global_error.json = malloc(n); __CPROVER_assume(global_error.json != NULL); }
    r = cJSON_GetErrorPtr();
    VF_COVER(r == NULL);
    VF_COVER(r != NULL);
}
