/* print_object skeleton: ensure, print_string_ptr, print_value, update_offset replaced by logging callee views (specs/c_printcont.h);
 * at most PO_K members and depth <= PO_DMAX by precondition (stated bounds: the member loop and the two tab loops unwind completely);
 * one unit per formatting mode (PO_FMT). */
#include "cjson_tu.h"
void h_print_object(void)
{
    const cJSON *item; printbuffer *b; cJSON_bool r;
    VF_INIT(); g_el_n = 0; g_wl_n = 0;
    r = print_object(item, b);
    VF_COVER(r && g_wl_n == 0);
    VF_COVER(r && g_wl_n == 2 * PO_K && g_el_n == (size_t)(2 + PO_K * (PO_FMT ? 3 : 2)));
    VF_COVER(!r && g_wl_n == 1 && g_el_n == (size_t)(PO_FMT ? 2 : 1) && g_wl[0].ok == 0);
    VF_COVER(!r && g_wl_n == 2 && g_el_n == (size_t)(PO_FMT ? 3 : 2) && g_wl[0].ok);
    VF_COVER(!r && g_el_n == 0);
}
