/* RFC 6902 patch application, bounded unit (B) on the real core + utilities: documents that are objects with AP_ND members (1-byte keys, integer values),
 * ONE patch operation whose members op / path / from / value are each present, absent or of the wrong type; paths "" or "/<byte>".
 * (robustness) any such patch: no memory error (CBMC pointer obligations), every block is released exactly once by the end (ledger), the document
 * stays a well-formed tree; (conformance) status 0 exactly when RFC 6902 evaluation succeeds and then the document equals the RFC result. */
#ifndef AP_ND
#define AP_ND 2
#endif
#if AP_FROM != 1
#define VF_BUILTIN_STRINGS   /* CBMC's own strlen/strcmp; when `from` is not a string the model of specs/models.h is used: it reports a NULL argument instead of diverging */
#endif
#define VF_BUILTIN_MEMCPY
#define VF_NOFAIL
#include "both_tu.h"
/* harness-built blocks: plain malloc (concrete objects keep symex tractable) but counted, so that the ledger must balance at the end */
static void *t_alloc(size_t n) { void *p = malloc(n); __CPROVER_assume(p != NULL); g_hook_allocs++; return p; }
static char *mkstr(const char *lit, size_t n) { char *s = t_alloc(n + 1); size_t i; for (i = 0; i <= n; i++) s[i] = lit[i]; return s; }
static cJSON *mknode(int type) { cJSON *x = t_alloc(sizeof(cJSON)); x->next = x->prev = x->child = NULL; x->type = type; x->valuestring = NULL; x->string = NULL; x->valueint = 0; x->valuedouble = 0; return x; }
static void append(cJSON *parent, cJSON *c) { if (parent->child == NULL) { parent->child = c; c->prev = c; } else { cJSON *l = parent->child->prev; l->next = c; c->prev = l; parent->child->prev = c; } }
static cJSON *member(const char *key, size_t klen, int type) { cJSON *m = mknode(type); m->string = mkstr(key, klen); return m; }
/* model of the document: up to 3 (key, value) pairs in order */
struct model { char k[3]; int v[3]; unsigned n; };
static int m_find(const struct model *m, char k) { unsigned i; for (i = 0; i < 3; i++) if (i < m->n && m->k[i] == k) return (int)i; return -1; }
static void m_remove(struct model *m, int i) { unsigned j; for (j = 0; j < 2; j++) if (j >= (unsigned)i && j + 1 < m->n) { m->k[j] = m->k[j + 1]; m->v[j] = m->v[j + 1]; } m->n--; }
static void m_add(struct model *m, char k, int v) { int i = m_find(m, k); if (i >= 0) m_remove(m, i); m->k[m->n] = k; m->v[m->n] = v; m->n++; }
void h_u_applypatch_b(void)
{
    cJSON *doc, *patches, *p, *m_op, *m_path, *m_from, *m_value; struct model M; unsigned i; int status, opsel = AP_OP;   /* concrete operation per unit */
    const char *ops[7] = { "add", "remove", "replace", "move", "copy", "test", "bogus" };
    /* scenario per unit (concrete structure: symbolic member presence makes the formula exceed 16 GB, DESIGN 6):
     * AP_PATH 0 "" / 1 existing member "/a" / 2 missing "/d";  AP_FROM 0 absent / 1 present but not a string / 2 "/a" / 3 "/d" / 4 "";  AP_VALUE 0 absent / 1 present */
    char pathc = (AP_PATH == 2) ? 'd' : (AP_PATH == 3) ? 'A' : 'a', fromc = (AP_FROM == 3) ? 'd' : (AP_FROM == 5) ? 'A' : 'a';   /* kind 3 / 5: key "A" in a document {"a":..,"A":..}: case-sensitive patching must not confuse them */ _Bool path_root = (AP_PATH == 0), from_root = (AP_FROM == 4);
#ifdef AP_MALFORMED
    _Bool has_op = AP_HASOP, has_path = AP_HASPATH, has_from = 1, has_value = 1, op_str = AP_OPSTR, path_str = AP_PATHSTR, from_str = 1;
#else
    _Bool has_op = 1, has_path = 1, has_from = (AP_FROM != 0), has_value = AP_VALUE, op_str = 1, path_str = 1, from_str = (AP_FROM != 1);
#endif
    int val = nondet_int(); int want_ok = 0; _Bool open_case = 0;
    VF_INIT();
    global_hooks.allocate = vf_alloc; global_hooks.deallocate = vf_free; global_hooks.reallocate = NULL;
    g_hook_allocs = 0; g_hook_frees = 0;
    __CPROVER_assume(opsel >= 0 && opsel < 7 && val >= -4 && val <= 4);
    /* document */
    doc = mknode(cJSON_Object); M.n = 0;
    for (i = 0; i < AP_ND; i++) { char k[2]; cJSON *c; k[0] = (char)((i == 1 && (AP_PATH == 3 || AP_FROM == 5)) ? 'A' : ('a' + i)); k[1] = 0; c = member(k, 1, cJSON_Number); c->valueint = (int)i + 1; c->valuedouble = (double)(i + 1); append(doc, c); M.k[M.n] = k[0]; M.v[M.n] = (int)i + 1; M.n++; }
    /* patch array with one operation */
    patches = mknode(cJSON_Array); p = mknode(cJSON_Object); append(patches, p);
    if (has_op) { m_op = member("op", 2, op_str ? cJSON_String : cJSON_Number); if (op_str) m_op->valuestring = mkstr(ops[opsel], opsel == 0 ? 3 : opsel == 1 ? 6 : opsel == 2 ? 7 : opsel == 3 ? 4 : opsel == 4 ? 4 : opsel == 5 ? 4 : 5); append(p, m_op); }
    if (has_path) { m_path = member("path", 4, path_str ? cJSON_String : cJSON_Number); if (path_str) { char s[3]; s[0] = '/'; s[1] = pathc; s[2] = 0; m_path->valuestring = path_root ? mkstr("", 0) : mkstr(s, 2); } append(p, m_path); }
    if (has_from) { m_from = member("from", 4, from_str ? cJSON_String : cJSON_Number); if (from_str) { char s[3]; s[0] = '/'; s[1] = fromc; s[2] = 0; m_from->valuestring = from_root ? mkstr("", 0) : mkstr(s, 2); } append(p, m_from); }
    if (has_value) { m_value = member("value", 5, cJSON_Number); m_value->valueint = val; m_value->valuedouble = (double)val; append(p, m_value); }
    /* RFC 6902 evaluation on the model (object document, pointers "" or "/<key>") */
    if (has_op && op_str && has_path && path_str && opsel < 6)
    {
        int pi = path_root ? -2 : m_find(&M, pathc), fi = from_root ? -2 : m_find(&M, fromc);
        if (path_root || ((opsel == 3 || opsel == 4) && from_root)) { open_case = 1; }   /* whole-document operations: not modelled here (see DESIGN: F6c / RFC-open remove) */
        else if (opsel == 0) { if (has_value) { m_add(&M, pathc, val); want_ok = 1; } }
        else if (opsel == 1) { if (pi >= 0) { m_remove(&M, pi); want_ok = 1; } }
        else if (opsel == 2) { if (pi >= 0 && has_value) { m_remove(&M, pi); m_add(&M, pathc, val); want_ok = 1; } else if (pi >= 0) { open_case = 1; } }
        else if (opsel == 5) { want_ok = (pi >= 0 && has_value && M.v[pi] == val); }
        else if (has_from && from_str && fi >= 0) { int v = M.v[fi]; if (opsel == 3) m_remove(&M, fi); m_add(&M, pathc, v); want_ok = 1; }
    }

    status = cJSONUtils_ApplyPatchesCaseSensitive(doc, patches);

    if (!open_case)
    {
        __CPROVER_assert((status == 0) == (want_ok != 0), "C16 status 0 exactly when RFC 6902 evaluation succeeds (missing member, missing op/path/value/from, wrong member type, failed test => non-zero)");
        {   /* the document equals the RFC result as a key/value SET (member order is not part of the property) and is a well-formed object */
            cJSON *c = doc->child, *last = NULL; unsigned cnt = 0, j;
            __CPROVER_assert((doc->type & 0xFF) == cJSON_Object, "C16 document still an object");
            for (i = 0; i < 4; i++) { if (c == NULL) break; __CPROVER_assert(c->string != NULL && c->string[1] == 0 && (last == NULL || c->prev == last), "C16 C19 members keyed, back links mirror"); last = c; cnt++; c = c->next; }
            __CPROVER_assert(cnt == M.n && (M.n == 0 || doc->child->prev == last), "C16 C19 same number of members; well-formed container afterwards");
            for (j = 0; j < 3; j++)
            {
                if (j < M.n)
                {
                    char k[2]; cJSON *m; k[0] = M.k[j]; k[1] = 0;
                    m = cJSON_GetObjectItemCaseSensitive(doc, k);
                    __CPROVER_assert(m != NULL && m->valueint == M.v[j], "C16 document equals the RFC 6902 result (same keys, same values)");
                }
            }
        }
    }
    /* robustness for every patch: nothing leaks, nothing is released twice (CBMC double-free obligations): delete everything and balance the ledger */
    cJSON_Delete(patches);
    if ((doc->type & 0xFF) != cJSON_Invalid || doc->child != NULL || 1) cJSON_Delete(doc);
    __CPROVER_assert(g_hook_allocs == g_hook_frees, "C16 C07 no leak and no double release for any patch document");
    VF_COVER(status == 0 || status != 0);
}
