#include "cjson_tu.h"
void h_print(void)
{
    const cJSON *i; cJSON_bool f; const internal_hooks *h; unsigned char *r;
    VF_INIT(); g_wb_calls = 0; g_pr_calls = 0; g_disp = D_NONE;
    r = print(i, f, h);
    VF_COVER(r != NULL); VF_COVER(r == NULL && g_wb_calls == 1 && g_disp_ret); VF_COVER(r == NULL && g_wb_calls == 0);
}
