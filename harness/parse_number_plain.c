/* parse_number, complete unwinding of the 63-byte copy loop, WITHOUT dfcc instrumentation (its per-assignment write-set
 * lookups made symex take >10 s per iteration).  Pre/postconditions are the macros of the contract, stated by the harness;
 * the frame is checked explicitly (content byte at g_k, untouched item fields). */
#include "cjson_tu.h"
void h_parse_number_plain(void)
{
    cJSON *item = malloc(sizeof(cJSON));
    parse_buffer *b = malloc(sizeof(parse_buffer));
    size_t len = nondet_size_t(), old_off;
    cJSON before; unsigned char byte_k = 0;
    cJSON_bool r;
    __CPROVER_assume(item != NULL && b != NULL);
    /* window argument: the function reads at most 63 bytes starting at offset and otherwise only compares offset+i with length,
     * so a buffer of PN_LEN bytes with an arbitrary offset exhibits every behaviour (tail shorter than, equal to, longer than 63) */
#ifndef PN_LEN
#define PN_LEN 80
#endif
    __CPROVER_assume(len == PN_LEN);
    b->content = malloc(PN_LEN);
    __CPROVER_assume(b->content != NULL);
    b->length = len;
    __CPROVER_assume(b->offset <= len);
    VF_INIT_LOCALE();
    before = *item; old_off = b->offset;
    if (g_k < len) { byte_k = b->content[g_k]; }

    r = parse_number(item, b);

    __CPROVER_assert(g_strtod_len <= 63 && g_strtod_len <= len - old_off, "C01 candidate token fits the stack buffer and the input");
    if (g_k < g_strtod_len)
    {
        unsigned char c = b->content[old_off + g_k];
        __CPROVER_assert(NUM_CHAR(c), "C02 C03 candidate holds number bytes only");
        __CPROVER_assert(g_strtod_at_k == (c == '.' ? VF_DECIMAL_POINT : c), "C02 candidate is the input with the point localised");
    }
    __CPROVER_assert(g_strtod_len == 63 || g_strtod_len == len - old_off || !NUM_CHAR(b->content[old_off + g_strtod_len]), "C02 C03 candidate is the maximal run");
    __CPROVER_assert((r != 0) == (g_strtod_consumed > 0), "C03 accepted iff strtod converts");
    __CPROVER_assert(b->offset == old_off + g_strtod_consumed && b->offset <= len, "C01 C10 offset advances by the consumed prefix");
    if (r) { __CPROVER_assert(item->type == cJSON_Number && item->valuedouble == g_strtod_value && item->valueint == SAT_INT(g_strtod_value), "C02 value and saturated integer view"); }
    else   { __CPROVER_assert(item->type == before.type && item->valueint == before.valueint, "C03 item untouched on rejection"); }
    __CPROVER_assert(item->next == before.next && item->prev == before.prev && item->child == before.child && item->valuestring == before.valuestring && item->string == before.string, "frame: other item fields");
    __CPROVER_assert(b->length == len && b->depth == b->depth, "frame: buffer");
    if (g_k < len) { __CPROVER_assert(b->content[g_k] == byte_k, "C01 input never written"); }
    VF_COVER(r && g_strtod_consumed >= 20);
    VF_COVER(!r && old_off < len);
    VF_COVER(r && item->valueint == INT_MAX);
}
