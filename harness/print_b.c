/* print_value / print_array / print_object / print_string_ptr with the REAL ensure(), bounded unit (B): every tree of the unit's concrete shape
 * (root + PB_NC children + PB_NG grandchild) over null/true/false/strings/arrays/objects, 1-byte keys and strings (no escapes: those are unit
 * print_string_ptr_b), both formats, printed into a caller buffer of every usable length n (cJSON_PrintPreallocated).
 * (C09) nothing at or beyond n is written, true only with the complete terminated text, succeeds whenever n >= text+1+5, monotone;
 * (C05/C04) the text equals a reference printer written from RFC 8259 + cJSON's documented layout; formatted and unformatted differ only in blanks. */
#define VF_BUILTIN_STRINGS
#define VF_BUILTIN_MEMCPY
#include "cjson_tu.h"
#include "tree.h"
#define PB_OBJ 64
static struct t_tree T;
static unsigned char ref[PB_OBJ]; static size_t rl;
static void put(unsigned char c) { if (rl < PB_OBJ) ref[rl] = c; rl++; }
static void tabs(unsigned n) { unsigned i; for (i = 0; i < 3; i++) if (i < n) put('\t'); }
static void ref_scalar(const cJSON *n)
{
    int t = n->type & 0xFF;
    if (t == cJSON_NULL) { put('n'); put('u'); put('l'); put('l'); }
    else if (t == cJSON_True) { put('t'); put('r'); put('u'); put('e'); }
    else if (t == cJSON_False) { put('f'); put('a'); put('l'); put('s'); put('e'); }
    else { put('\"'); if (n->valuestring) put((unsigned char)n->valuestring[0]); put('\"'); }
}
static void ref_key(const cJSON *n) { put('\"'); if (n->string) put((unsigned char)n->string[0]); put('\"'); }
/* value at nesting level `depth` (root = 0); kids[] are its children (leaves, or one level more for the first child) */
static void ref_value(const cJSON *n, unsigned depth, cJSON_bool fmt, const cJSON *k0, const cJSON *k1, const cJSON *g0)
{
    int t = n->type & 0xFF; const cJSON *kids[2]; unsigned nk = 0, i;
    if (k0) kids[nk++] = k0; if (k1) kids[nk++] = k1;
    if (t == cJSON_Array)
    {
        put('[');
        for (i = 0; i < 2; i++) if (i < nk) { if (i == 0 && g0 != NULL) ref_value(kids[i], depth + 1, fmt, g0, NULL, NULL); else if ((kids[i]->type & 0xFF) == cJSON_Array || (kids[i]->type & 0xFF) == cJSON_Object) ref_value(kids[i], depth + 1, fmt, NULL, NULL, NULL); else ref_scalar(kids[i]);
            if (i + 1 < nk) { put(','); if (fmt) put(' '); } }
        put(']');
    }
    else if (t == cJSON_Object)
    {
        put('{'); if (fmt) put('\n');
        for (i = 0; i < 2; i++) if (i < nk) { if (fmt) tabs(depth + 1); ref_key(kids[i]); put(':'); if (fmt) put('\t');
            if (i == 0 && g0 != NULL) ref_value(kids[i], depth + 1, fmt, g0, NULL, NULL); else if ((kids[i]->type & 0xFF) == cJSON_Array || (kids[i]->type & 0xFF) == cJSON_Object) ref_value(kids[i], depth + 1, fmt, NULL, NULL, NULL); else ref_scalar(kids[i]);
            if (i + 1 < nk) put(','); if (fmt) put('\n'); }
        if (fmt) tabs(depth);
        put('}');
    }
    else ref_scalar(n);
}
static int ok_type(int t) { t &= 0xFF; return t == cJSON_NULL || t == cJSON_True || t == cJSON_False || t == cJSON_String || t == cJSON_Array || t == cJSON_Object; }
void h_print_b(void)
{
    cJSON *root; unsigned char *buf = malloc(PB_OBJ); unsigned char snap[PB_OBJ]; size_t n = nondet_size_t(), i; cJSON_bool fmt = nondet_bool(), r;
    unsigned c;
    __CPROVER_assume(buf != NULL && n <= PB_OBJ);
    VF_INIT();
    global_hooks.allocate = vf_alloc; global_hooks.deallocate = vf_free; global_hooks.reallocate = NULL;
    root = t_build_n(&T, 0, PB_NC, PB_NG);
    for (c = 0; c < T_MAXNODES; c++) if (c < T.count)
    {
        cJSON *x = T.node[c];
        __CPROVER_assume(ok_type(x->type));
        if (x->child != NULL) __CPROVER_assume((x->type & 0xFF) == cJSON_Array || (x->type & 0xFF) == cJSON_Object);
        if ((x->type & 0xFF) == cJSON_String) __CPROVER_assume(x->valuestring != NULL);
        if (x->valuestring) __CPROVER_assume(x->valuestring[0] >= 0x23 && x->valuestring[0] <= 0x5B);
        if (x->string) __CPROVER_assume(x->string[0] >= 0x23 && x->string[0] <= 0x5B);
    }
    for (i = 0; i < PB_OBJ; i++) snap[i] = buf[i];
    rl = 0;
    ref_value(root, 0, fmt, PB_NC >= 1 ? T.node[1] : NULL, PB_NC >= 2 ? T.node[2] : NULL, PB_NG >= 1 ? T.node[PB_NC + 1] : NULL);
    __CPROVER_assert(rl + 6 < PB_OBJ, "harness: reference text fits");

    r = cJSON_PrintPreallocated(root, (char*)buf, (int)n, fmt);

    for (i = 0; i < PB_OBJ; i++) { if (i >= n) __CPROVER_assert(buf[i] == snap[i], "C09 writes only to bytes [0, n)"); }
    if (r)
    {
        __CPROVER_assert(n >= rl + 1, "C09 true only if the complete text and its terminator fit");
        for (i = 0; i < PB_OBJ; i++) { if (i < rl) __CPROVER_assert(buf[i] == ref[i], "C05 C04 printed text is exactly the reference rendering (strict JSON; layout differs from unformatted only in blanks)"); }
        __CPROVER_assert(buf[rl] == 0, "C09 C05 zero-terminated complete text");
    }
    __CPROVER_assert(!(n >= rl + 1 + 5) || r, "C09 succeeds for every n at least five bytes larger than text + terminator");
    __CPROVER_assert(g_hook_allocs == 0 && g_hook_frees == 0, "C09 C14 no allocator call when printing into a caller buffer");
    VF_COVER(r && fmt);
    VF_COVER(r && !fmt && n == rl + 1 + 1);
    VF_COVER(!r && n + 1 >= rl);
}
