/* Small symbolic trees for the bounded (B) units: a root with up to 2 children, the first child with up to 1 child of its own
 * (<= 4 nodes, depth <= 2).  Types, flags, numbers, 1-byte strings and keys are symbolic; sibling links are well-formed.
 * Every block is obtained with malloc so that the harness knows all of them. */
#ifndef VF_TREE_H
#define VF_TREE_H
#ifndef T_MAXGRAND
#define T_MAXGRAND 1
#endif
#define T_MAXNODES (3 + T_MAXGRAND)
struct t_tree { cJSON *node[T_MAXNODES]; char *vs[T_MAXNODES]; char *key[T_MAXNODES]; unsigned nchildren, ngrand, count; };
static char *t_str(void)
{
    char *s = malloc(2);
    __CPROVER_assume(s != NULL);
    s[0] = (char)nondet_uchar(); s[1] = 0;
    __CPROVER_assume(s[0] != 0);
    return s;
}
static cJSON *t_node(struct t_tree *t, int want_key)
{
    cJSON *n = malloc(sizeof(cJSON));
    unsigned i = t->count++;
    __CPROVER_assume(n != NULL);
    n->next = n->prev = n->child = NULL;
    n->type = nondet_int();
    __CPROVER_assume((n->type & ~(0xFF | cJSON_IsReference | cJSON_StringIsConst)) == 0);
    n->valueint = nondet_int(); n->valuedouble = nondet_double();
    t->vs[i] = nondet_bool() ? t_str() : NULL; n->valuestring = t->vs[i];
    t->key[i] = (want_key && nondet_bool()) ? t_str() : NULL; n->string = t->key[i];
    t->node[i] = n;
    return n;
}
/* node[0] root; node[1], node[2] children (if any); node[3] (or the next free index) the grandchild under the first child */
static cJSON *t_build_n(struct t_tree *t, int root_key, unsigned nchildren, unsigned ngrand);
static cJSON *t_build(struct t_tree *t, int root_key)
{
#ifdef T_SHAPE_CHILDREN
    return t_build_n(t, root_key, T_SHAPE_CHILDREN, T_SHAPE_GRAND);
#else
    cJSON *root, *c1 = NULL, *c2 = NULL, *g = NULL, *g2 = NULL;
    t->count = 0;
    root = t_node(t, root_key);
    t->nchildren = nondet_uint_(); t->ngrand = nondet_uint_();
    __CPROVER_assume(t->nchildren <= 2 && t->ngrand <= T_MAXGRAND && (t->nchildren > 0 || t->ngrand == 0));
    if (t->nchildren >= 1) { c1 = t_node(t, 1); root->child = c1; c1->prev = c1; }
    if (t->nchildren >= 2) { c2 = t_node(t, 1); c1->next = c2; c2->prev = c1; c1->prev = c2; }
    if (t->ngrand >= 1) { g = t_node(t, 1); c1->child = g; g->prev = g; }
    if (t->ngrand >= 2) { g2 = t_node(t, 1); g->next = g2; g2->prev = g; g->prev = g2; }
    return root;
#endif
}
/* concrete shape (literal arguments): symbolic shapes make every pointer a large case split and symex does not finish (DESIGN 6) */
static cJSON *t_build_n(struct t_tree *t, int root_key, unsigned nchildren, unsigned ngrand)
{
    cJSON *root, *c1 = NULL, *c2 = NULL, *g = NULL, *g2 = NULL;
    t->count = 0;
    root = t_node(t, root_key);
    t->nchildren = nchildren; t->ngrand = ngrand;
    if (nchildren >= 1) { c1 = t_node(t, 1); root->child = c1; c1->prev = c1; }
    if (nchildren >= 2) { c2 = t_node(t, 1); c1->next = c2; c2->prev = c1; c1->prev = c2; }
    if (ngrand >= 1) { g = t_node(t, 1); c1->child = g; g->prev = g; }
    if (ngrand >= 2) { g2 = t_node(t, 1); g->next = g2; g2->prev = g; g->prev = g2; }
    return root;
}
#define OWNS_VS_T(n) (!((n)->type & cJSON_IsReference))
#define OWNS_KEY_T(n) (!((n)->type & cJSON_StringIsConst))
#endif
