#include "cjson_tu.h"
void h_cJSON_AddItemToObject(void)
{
    cJSON *o, *i; const char *s; cJSON_bool r;
    VF_INIT(); g_aito_calls = 0;
    r = cJSON_AddItemToObject(o, s, i);
    VF_COVER(r);
}
