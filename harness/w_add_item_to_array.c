/* add_item_to_array: append to a list of every length (window = head and tail), plus the refused calls */
#include "cjson_tu.h"
#include "window.h"
void h_w_add_item_to_array(void)
{
    cJSON *item = malloc(sizeof(cJSON));
    cJSON_bool r;
    int mode = nondet_int();
    __CPROVER_assume(item != NULL);
    w_build(0);
    w_k = 0;               /* window: head and tail only */
    w_poison();
    item->next = NULL; item->prev = NULL;     /* ownership rule: a detached/fresh item has no sibling links */
    if (mode == 1)
    {
        cJSON *old_child = w_parent->child;
        int which = nondet_int();
        r = add_item_to_array(which == 0 ? NULL : w_parent, which == 0 ? item : (which == 1 ? NULL : w_parent));
        __CPROVER_assert(r == 0, "C06 refused: NULL argument or adding a container to itself");
        __CPROVER_assert(w_parent->child == old_child && item->next == NULL && item->prev == NULL, "C06 refused call changes nothing");
        if (w_n > 0) { __CPROVER_assert(w_nodes[0]->prev == w_nodes[w_n - 1] && w_nodes[w_n - 1]->next == NULL, "C06 refused call leaves the chain alone"); }
        VF_COVER(!r);
        return;
    }
    r = add_item_to_array(w_parent, item);
    __CPROVER_assert(r == 1, "C06 append succeeds (returns exactly true)");
    if (w_n == 0)
    {
        __CPROVER_assert(w_parent->child == item && item->prev == item && item->next == NULL, "C06 first child: back link designates itself");
    }
    else
    {
        __CPROVER_assert(w_parent->child == w_nodes[0], "C06 head unchanged");
        __CPROVER_assert(w_nodes[w_n - 1]->next == item && item->prev == w_nodes[w_n - 1], "C06 appended after the old tail, back link mirrors");
        __CPROVER_assert(item->next == NULL, "C06 forward links end in NULL");
        __CPROVER_assert(w_nodes[0]->prev == item, "C06 first child's back link designates the new tail");
        if (w_n > 1) { __CPROVER_assert(w_nodes[0]->next == w_nodes[1], "C06 rest untouched"); }
    }
    VF_COVER(w_n == 0);
    VF_COVER(w_n == 1);
    VF_COVER(w_n == 6);
}
