#include "cjson_tu.h"
void h_cJSON_InitHooks(void)
{
    cJSON_Hooks *h;
    VF_INIT();
    cJSON_InitHooks(h);
    VF_COVER(global_hooks.reallocate == NULL); VF_COVER(global_hooks.reallocate != NULL);
}
