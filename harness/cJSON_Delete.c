#include "cjson_tu.h"
void h_cJSON_Delete(void)
{
    cJSON *i;
    VF_INIT();
    __CPROVER_assume(!IS_TOK(i));
    cJSON_Delete(i);
    VF_COVER(g_dlogn == 1);
    VF_COVER(g_dlogn == 0 && g_hook_frees >= 3);
}
