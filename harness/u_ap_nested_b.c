/* RFC 6902 "move" on nested documents, bounded unit (B, enumerated concrete scenarios on the real core + utilities):
 * AN_SCEN 0: {"a":{"b":{}}}   move /a   -> /a/b/c   moving a value into its own child: must be refused (C16 names this case)
 * AN_SCEN 1: {"a":{"b":{}},"x":V} move /x -> /a/b/c  an ordinary move into a nested object: status 0, value arrives, source gone
 * AN_SCEN 2: {"a":[{"x":1},{"y":2}]} move /a/0 -> /a/1/z  the target parent no longer exists once the source has left: must be refused
 * AN_SCEN 3: {"a":[1,2,3]}  remove /a/2 ; add /a/- V   two operations on array elements: result [1,2,V] (the tail link must survive the removal)
 * AN_SCEN 4: {"a":[1,2,3]}  move /a/2 -> /a/0        result [3,1,2]
 * AN_SCEN 5: {"a":[1,2,3]}  add /a/5 V               index past the end: refused, array unchanged, the rejected value is released (ledger)
 * AN_SCEN 6: {"a":[1,2,3]}  add /a/1 V               insertion in the middle: [1,V,2,3]
 * In every scenario: no memory error, every block released exactly once by the end (ledger), document still a healthy tree. */
#define VF_BUILTIN_STRINGS
#define VF_BUILTIN_MEMCPY
#define VF_NOFAIL
#include "both_tu.h"
static void *t_alloc(size_t n) { void *p = malloc(n); __CPROVER_assume(p != NULL); g_hook_allocs++; return p; }
static char *mkstr(const char *lit, size_t n) { char *s = t_alloc(n + 1); size_t i; for (i = 0; i <= n; i++) s[i] = lit[i]; return s; }
static cJSON *mknode(int type) { cJSON *x = t_alloc(sizeof(cJSON)); x->next = x->prev = x->child = NULL; x->type = type; x->valuestring = NULL; x->string = NULL; x->valueint = 0; x->valuedouble = 0; return x; }
static void append(cJSON *parent, cJSON *c) { if (parent->child == NULL) { parent->child = c; c->prev = c; } else { cJSON *l = parent->child->prev; l->next = c; c->prev = l; parent->child->prev = c; } }
static cJSON *member(const char *key, size_t klen, int type) { cJSON *m = mknode(type); if (key) m->string = mkstr(key, klen); return m; }
static cJSON *strmember(const char *key, size_t klen, const char *v, size_t vlen) { cJSON *m = member(key, klen, cJSON_String); m->valuestring = mkstr(v, vlen); return m; }
static int healthy(const cJSON *o) { const cJSON *c = o->child, *l = NULL; unsigned i; if (c == NULL) return 1; for (i = 0; i < 4; i++) { if (c == NULL) break; if (l != NULL && c->prev != l) return 0; l = c; c = c->next; } return c == NULL && o->child->prev == l; }
void h_u_ap_nested_b(void)
{
    cJSON *doc, *a, *b, *patches, *p; int status; int val = nondet_int();
    VF_INIT();
    global_hooks.allocate = vf_alloc; global_hooks.deallocate = vf_free; global_hooks.reallocate = NULL;
    g_hook_allocs = 0; g_hook_frees = 0;
    __CPROVER_assume(val >= -4 && val <= 4);
    doc = mknode(cJSON_Object);
#if AN_SCEN >= 3
    a = member("a", 1, cJSON_Array); append(doc, a);
    { int k; for (k = 1; k <= 3; k++) { cJSON *e = mknode(cJSON_Number); e->valueint = k; e->valuedouble = (double)k; append(a, e); } }
#elif AN_SCEN == 2
    a = member("a", 1, cJSON_Array); append(doc, a);
    { cJSON *e0 = mknode(cJSON_Object), *e1 = mknode(cJSON_Object), *x = member("x", 1, cJSON_Number), *y = member("y", 1, cJSON_Number); x->valueint = 1; x->valuedouble = 1; y->valueint = 2; y->valuedouble = 2; append(e0, x); append(e1, y); append(a, e0); append(a, e1); }
#else
    a = member("a", 1, cJSON_Object); b = member("b", 1, cJSON_Object); append(a, b); append(doc, a);
#if AN_SCEN == 1
    { cJSON *x = member("x", 1, cJSON_Number); x->valueint = val; x->valuedouble = (double)val; append(doc, x); }
#endif
#endif
    patches = mknode(cJSON_Array); p = mknode(cJSON_Object); append(patches, p);
#if AN_SCEN == 3
    append(p, strmember("op", 2, "remove", 6)); append(p, strmember("path", 4, "/a/2", 4));
    { cJSON *q = mknode(cJSON_Object), *v = member("value", 5, cJSON_Number); v->valueint = val; v->valuedouble = (double)val; append(patches, q);
      append(q, strmember("op", 2, "add", 3)); append(q, strmember("path", 4, "/a/-", 4)); append(q, v); }
#elif AN_SCEN >= 5
    { cJSON *v = member("value", 5, cJSON_Number); v->valueint = val; v->valuedouble = (double)val;
      append(p, strmember("op", 2, "add", 3)); append(p, strmember("path", 4, AN_SCEN == 5 ? "/a/5" : "/a/1", 4)); append(p, v); }
#else
    append(p, strmember("op", 2, "move", 4));
#endif
#if AN_SCEN == 3 || AN_SCEN >= 5
#elif AN_SCEN == 4
    append(p, strmember("from", 4, "/a/2", 4)); append(p, strmember("path", 4, "/a/0", 4));
#elif AN_SCEN == 0
    append(p, strmember("from", 4, "/a", 2)); append(p, strmember("path", 4, "/a/b/c", 6));
#elif AN_SCEN == 1
    append(p, strmember("from", 4, "/x", 2)); append(p, strmember("path", 4, "/a/b/c", 6));
#else
    append(p, strmember("from", 4, "/a/0", 4)); append(p, strmember("path", 4, "/a/1/z", 6));
#endif
    status = cJSONUtils_ApplyPatchesCaseSensitive(doc, patches);
#if AN_SCEN == 5
    __CPROVER_assert(status != 0, "C16 add at an index past the end of the array is refused");
    {
        cJSON *aa = cJSON_GetObjectItemCaseSensitive(doc, "a"); cJSON *e0 = aa ? aa->child : NULL, *e1 = e0 ? e0->next : NULL, *e2 = e1 ? e1->next : NULL;
        __CPROVER_assert(aa != NULL && healthy(aa) && healthy(doc) && e2 != NULL && e2->next == NULL && e0->valueint == 1 && e1->valueint == 2 && e2->valueint == 3, "C16 refused add leaves the array [1,2,3] unchanged");
    }
#elif AN_SCEN == 6
    __CPROVER_assert(status == 0, "C16 add at an index inside the array succeeds");
    {
        cJSON *aa = cJSON_GetObjectItemCaseSensitive(doc, "a"); cJSON *e0 = aa ? aa->child : NULL, *e1 = e0 ? e0->next : NULL, *e2 = e1 ? e1->next : NULL, *e3 = e2 ? e2->next : NULL;
        __CPROVER_assert(aa != NULL && healthy(aa) && healthy(doc) && e3 != NULL && e3->next == NULL && e0->valueint == 1 && e1->valueint == val && e2->valueint == 2 && e3->valueint == 3, "C16 add /a/1: [1,V,2,3] in order, healthy chain");
    }
#elif AN_SCEN >= 3
    __CPROVER_assert(status == 0, "C16 operations on array elements succeed");
    {
        cJSON *aa = cJSON_GetObjectItemCaseSensitive(doc, "a"); cJSON *e0 = aa ? aa->child : NULL, *e1 = e0 ? e0->next : NULL, *e2 = e1 ? e1->next : NULL;
        __CPROVER_assert(aa != NULL && healthy(aa) && healthy(doc) && e2 != NULL && e2->next == NULL, "C16 C19 array of three elements in a healthy chain afterwards");
#if AN_SCEN == 3
        __CPROVER_assert(e0->valueint == 1 && e1->valueint == 2 && e2->valueint == val, "C16 remove /a/2 then add /a/-: [1,2,V] in order");
#else
        __CPROVER_assert(e0->valueint == 3 && e1->valueint == 1 && e2->valueint == 2, "C16 move /a/2 to /a/0: [3,1,2] in order");
#endif
    }
#elif AN_SCEN == 1
    __CPROVER_assert(status == 0, "C16 an ordinary move into a nested object succeeds");
    {
        cJSON *aa = cJSON_GetObjectItemCaseSensitive(doc, "a"), *bb = aa ? cJSON_GetObjectItemCaseSensitive(aa, "b") : NULL, *cc = bb ? cJSON_GetObjectItemCaseSensitive(bb, "c") : NULL;
        __CPROVER_assert(cc != NULL && cc->valueint == val && cJSON_GetObjectItemCaseSensitive(doc, "x") == NULL, "C16 the value arrives at the path and is gone from its source");
        __CPROVER_assert(healthy(doc) && healthy(aa) && healthy(bb), "C16 C19 document still a healthy tree");
    }
#else
    __CPROVER_assert(status != 0, "C16 move is `remove from` then `add path`: a target that lies inside the moved value, or that no longer exists once the value has left, is refused");
    __CPROVER_assert(healthy(doc), "C16 C19 document still a healthy tree");
#endif
    cJSON_Delete(patches);
    cJSON_Delete(doc);
    __CPROVER_assert(g_hook_allocs == g_hook_frees, "C16 C07 no leak and no double release");
    VF_COVER(status == 0 || status != 0);
}
