#include "cjson_tu.h"
void h_cJSON_CreateArrayReference(void)
{
    const cJSON *c; cJSON *r;
    VF_INIT();
    r = cJSON_CreateArrayReference(c);
    VF_COVER(r != NULL); VF_COVER(r == NULL);
}
