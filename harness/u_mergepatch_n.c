/* RFC 7396 merge patch on NESTED objects ("nested objects recurse", C18), bounded unit (B: enumerated scenarios, member values symbolic):
 * target {"a":{"Foo":x,"foo":y},"k":z}
 * MN_SCEN 0: patch {"a":{"foo":V}}     -> {"a":{"Foo":x,"foo":V},"k":z}   the exact key is replaced two levels down, its case twin stays
 * MN_SCEN 1: patch {"a":{"foo":null}}  -> {"a":{"Foo":x},"k":z}           the exact key is deleted two levels down
 * MN_SCEN 2: patch {"a":{"FOO":V}}     -> {"a":{"Foo":x,"foo":y,"FOO":V},"k":z}  a key that differs in case from both is added
 * Case-sensitive application; ledger: every block released exactly once after deleting the result and the patch. */
#define VF_BUILTIN_STRINGS
#define VF_BUILTIN_MEMCPY
#define VF_NOFAIL
#include "both_tu.h"
static void *t_alloc(size_t n) { void *p = malloc(n); __CPROVER_assume(p != NULL); g_hook_allocs++; return p; }
static char *mkstr(const char *lit, size_t n) { char *s = t_alloc(n + 1); size_t i; for (i = 0; i <= n; i++) s[i] = lit[i]; return s; }
static cJSON *mknode(int type) { cJSON *x = t_alloc(sizeof(cJSON)); x->next = x->prev = x->child = NULL; x->type = type; x->valuestring = NULL; x->string = NULL; x->valueint = 0; x->valuedouble = 0; return x; }
static void append(cJSON *parent, cJSON *c) { if (parent->child == NULL) { parent->child = c; c->prev = c; } else { cJSON *l = parent->child->prev; l->next = c; c->prev = l; parent->child->prev = c; } }
static cJSON *member(const char *key, size_t klen, int type, int v) { cJSON *m = mknode(type); m->string = mkstr(key, klen); m->valueint = v; m->valuedouble = (double)v; return m; }
static int healthy(const cJSON *o) { const cJSON *c = o->child, *l = NULL; unsigned i; if (c == NULL) return 1; for (i = 0; i < 4; i++) { if (c == NULL) break; if (l != NULL && c->prev != l) return 0; l = c; c = c->next; } return c == NULL && o->child->prev == l; }
static unsigned count(const cJSON *o) { unsigned n = 0, i; const cJSON *c = o->child; for (i = 0; i < 5 && c != NULL; i++, c = c->next) n++; return n; }
void h_u_mergepatch_n(void)
{
    cJSON *target, *ta, *patch, *pa, *res, *ra, *m; int x = nondet_int(), y = nondet_int(), z = nondet_int(), v = nondet_int();
    VF_INIT();
    global_hooks.allocate = vf_alloc; global_hooks.deallocate = vf_free; global_hooks.reallocate = NULL;
    g_hook_allocs = 0; g_hook_frees = 0;
    __CPROVER_assume(x >= 0 && x <= 3 && y >= 4 && y <= 7 && z >= 8 && z <= 11 && v >= 12 && v <= 15);
    target = mknode(cJSON_Object); ta = member("a", 1, cJSON_Object, 0); append(target, ta); append(target, member("k", 1, cJSON_Number, z));
    append(ta, member("Foo", 3, cJSON_Number, x)); append(ta, member("foo", 3, cJSON_Number, y));
    patch = mknode(cJSON_Object); pa = member("a", 1, cJSON_Object, 0); append(patch, pa);
#if MN_SCEN == 0
    append(pa, member("foo", 3, cJSON_Number, v));
#elif MN_SCEN == 1
    append(pa, member("foo", 3, cJSON_NULL, 0));
#else
    append(pa, member("FOO", 3, cJSON_Number, v));
#endif
    res = cJSONUtils_MergePatchCaseSensitive(target, patch);
    __CPROVER_assert(res != NULL && (res->type & 0xFF) == cJSON_Object && healthy(res) && count(res) == 2, "C18 nested: result is an object with the two top-level members");
    ra = cJSON_GetObjectItemCaseSensitive(res, "a"); m = cJSON_GetObjectItemCaseSensitive(res, "k");
    __CPROVER_assert(m != NULL && m->valueint == z, "C18 nested: members the patch does not name are kept");
    __CPROVER_assert(ra != NULL && (ra->type & 0xFF) == cJSON_Object && healthy(ra), "C18 nested: the nested member is still an object, well-formed");
    m = cJSON_GetObjectItemCaseSensitive(ra, "Foo");
    __CPROVER_assert(m != NULL && m->valueint == x, "C18 nested objects recurse case-sensitively: the case twin of the patched key is untouched");
    m = cJSON_GetObjectItemCaseSensitive(ra, "foo");
#if MN_SCEN == 0
    __CPROVER_assert(count(ra) == 2 && m != NULL && m->valueint == v, "C18 nested: the exact key is set to the patch value");
#elif MN_SCEN == 1
    __CPROVER_assert(count(ra) == 1 && m == NULL, "C18 nested: a null member deletes the exact key");
#else
    __CPROVER_assert(count(ra) == 3 && m != NULL && m->valueint == y, "C18 nested: other members are kept");
    m = cJSON_GetObjectItemCaseSensitive(ra, "FOO");
    __CPROVER_assert(m != NULL && m->valueint == v, "C18 nested: a new key is added");
#endif
    __CPROVER_assert(cJSON_GetObjectItemCaseSensitive(pa, MN_SCEN == 2 ? "FOO" : "foo") != NULL && count(pa) == 1 && count(patch) == 1, "C18 the patch is not modified");
    cJSON_Delete(res); cJSON_Delete(patch);
    __CPROVER_assert(g_hook_allocs == g_hook_frees, "C18 C07 no leak and no double release");
    VF_COVER(res != NULL);
}
