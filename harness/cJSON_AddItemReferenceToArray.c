#include "cjson_tu.h"
void h_cJSON_AddItemReferenceToArray(void)
{
    cJSON *a, *i; cJSON_bool r;
    VF_INIT(); g_cr_calls = 0; g_aita_calls = 0;
    r = cJSON_AddItemReferenceToArray(a, i);
    VF_COVER(r); VF_COVER(!r && g_cr_calls == 1); VF_COVER(!r && g_cr_calls == 0);
}
