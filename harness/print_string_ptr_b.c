/* print_string_ptr, bounded unit (B): every byte string of length <= PSP_N (no NUL inside); ensure() replaced by its callee view
 * (reservation = separate object of exactly needed+1 bytes, so any write outside it fails a pointer obligation).
 * The output is compared with a reference encoder written from RFC 8259 section 7. */
#ifndef PSP_N
#define PSP_N 5
#endif
#define VF_BUILTIN_MEMCPY
#include "cjson_tu.h"

static unsigned char ref[6 * PSP_N + 4];
static size_t ref_encode(const unsigned char *s, size_t len)
{
    const char *hx = "0123456789abcdef";
    size_t o = 0, i;
    ref[o++] = '\"';
    for (i = 0; i < PSP_N; i++)
    {
        unsigned char c;
        if (i >= len) break;
        c = s[i];
        if (c == '\"' || c == '\\') { ref[o++] = '\\'; ref[o++] = c; }
        else if (c == '\b') { ref[o++] = '\\'; ref[o++] = 'b'; }
        else if (c == '\f') { ref[o++] = '\\'; ref[o++] = 'f'; }
        else if (c == '\n') { ref[o++] = '\\'; ref[o++] = 'n'; }
        else if (c == '\r') { ref[o++] = '\\'; ref[o++] = 'r'; }
        else if (c == '\t') { ref[o++] = '\\'; ref[o++] = 't'; }
        else if (c < 32) { ref[o++] = '\\'; ref[o++] = 'u'; ref[o++] = '0'; ref[o++] = '0'; ref[o++] = hx[c >> 4]; ref[o++] = hx[c & 15]; }
        else { ref[o++] = c; }
    }
    ref[o++] = '\"';
    return o;
}

void h_print_string_ptr_b(void)
{
    unsigned char *in = malloc(PSP_N + 1);
    printbuffer *p = malloc(sizeof(printbuffer));
    size_t len = nondet_size_t(), i, want, old_off;
    cJSON_bool r;
    __CPROVER_assume(in != NULL && p != NULL && len <= PSP_N);
    for (i = 0; i < PSP_N + 1; i++) { if (i < len) { __CPROVER_assume(in[i] != 0); } else { in[i] = 0; } }
    VF_INIT(); g_ens_calls = 0;
    old_off = p->offset;
    want = ref_encode(in, len);

    r = print_string_ptr(nondet_bool() ? in : NULL, p);

    if (g_ens_calls == 1 && r)
    {
        if (g_ens_needed == 3 && len > 0)
        {   /* NULL input prints as the empty string */
            __CPROVER_assert(g_ens_win[0] == '\"' && g_ens_win[1] == '\"' && g_ens_win[2] == 0, "C05 NULL string printed as \"\"");
        }
        else
        {
            __CPROVER_assert(g_ens_needed == want + 1, "C09 C05 reservation is exactly text + terminator");
            for (i = 0; i < 6 * PSP_N + 2; i++) { if (i < want) { __CPROVER_assert(g_ens_win[i] == ref[i], "C05 C04 escaped text is exactly the RFC 8259 encoding"); } }
            __CPROVER_assert(g_ens_win[want] == 0, "C05 C09 terminator right behind the closing quote");
        }
        __CPROVER_assert(p->offset == old_off, "C09 offset left to update_offset");
        VF_COVER(want == PSP_N + 2);
        VF_COVER(want == 6 * PSP_N + 2);
        VF_COVER(want > PSP_N + 3 && want < 6 * PSP_N);
    }
    __CPROVER_assert(g_ens_calls == 1, "C09 exactly one reservation");
    __CPROVER_assert((r != 0) == g_ens_ok, "C08 C09 false exactly when the reservation fails");
}
