/* print_string_ptr, bounded unit (B): every byte string of length <= PSP_N (no NUL inside), printed with the REAL ensure() into a caller
 * buffer (noalloc) of concrete object size and symbolic usable length n: (C09) nothing at or beyond index n is written, success exactly
 * when the text + terminator fit, (C05/C04) the text is the RFC 8259 encoding computed by a reference encoder. */
#ifndef PSP_N
#define PSP_N 5
#endif
#define VF_BUILTIN_MEMCPY
#include "cjson_tu.h"
#include "ctype_model.h"
#define OBJ (6 * PSP_N + 6)
static unsigned char ref[OBJ];
static size_t ref_encode(const unsigned char *s, size_t len)
{
    const char *hx = "0123456789abcdef";
    size_t o = 0, i;
    ref[o++] = '\"';
    for (i = 0; i < PSP_N; i++)
    {
        unsigned char c;
        if (i >= len) break;
        c = s[i];
        if (c == '\"' || c == '\\') { ref[o++] = '\\'; ref[o++] = c; }
        else if (c == '\b') { ref[o++] = '\\'; ref[o++] = 'b'; }
        else if (c == '\f') { ref[o++] = '\\'; ref[o++] = 'f'; }
        else if (c == '\n') { ref[o++] = '\\'; ref[o++] = 'n'; }
        else if (c == '\r') { ref[o++] = '\\'; ref[o++] = 'r'; }
        else if (c == '\t') { ref[o++] = '\\'; ref[o++] = 't'; }
        else if (c < 32) { ref[o++] = '\\'; ref[o++] = 'u'; ref[o++] = '0'; ref[o++] = '0'; ref[o++] = hx[c >> 4]; ref[o++] = hx[c & 15]; }
        else { ref[o++] = c; }
    }
    ref[o++] = '\"';
    return o;
}

void h_print_string_ptr_b(void)
{
    unsigned char *in = malloc(PSP_N + 1);
    unsigned char *buf = malloc(OBJ);
    printbuffer p;
    unsigned char snap[OBJ];
    size_t len = nondet_size_t(), n = nondet_size_t(), i, want;
    _Bool null_input = nondet_bool();
    cJSON_bool r;
    __CPROVER_assume(in != NULL && buf != NULL && len <= PSP_N && n <= OBJ);
    for (i = 0; i < PSP_N + 1; i++) { if (i < len) { __CPROVER_assume(in[i] != 0); } else { in[i] = 0; } }
    for (i = 0; i < OBJ; i++) { snap[i] = buf[i]; }
    VF_INIT();
    p.buffer = buf; p.length = n; p.offset = 0; p.depth = 0; p.noalloc = 1; p.format = nondet_bool();
    p.hooks.allocate = vf_alloc; p.hooks.deallocate = vf_free; p.hooks.reallocate = NULL;
    if (null_input) { ref[0] = '\"'; ref[1] = '\"'; want = 2; } else { want = ref_encode(in, len); }

    r = print_string_ptr(null_input ? NULL : in, &p);

    /* the writer reserves text + terminator and ensure() keeps one more byte in hand: success needs want + 2 <= n, i.e. at most one byte of slack
     * (well inside the five bytes the property allows), and is monotone in n */
    __CPROVER_assert((r != 0) == (want + 2 <= n), "C09 succeeds exactly when text + terminator + 1 spare byte fit in [0, n) (monotone in n)");
    for (i = 0; i < OBJ; i++) { if (i >= n || (!r)) { __CPROVER_assert(buf[i] == snap[i], "C09 nothing at or beyond index n is written (and nothing at all on failure)"); } }
    if (r)
    {
        for (i = 0; i < OBJ; i++) { if (i < want) { __CPROVER_assert(buf[i] == ref[i], "C05 C04 escaped text is exactly the RFC 8259 encoding"); } }
        __CPROVER_assert(buf[want] == 0, "C05 C09 terminator right behind the closing quote");
        for (i = 0; i < OBJ; i++) { if (i > want) { __CPROVER_assert(buf[i] == snap[i], "C09 nothing behind the terminator is written"); } }
    }
    __CPROVER_assert(p.offset == 0 && p.buffer == buf && p.length == n, "C09 buffer never replaced; offset left to update_offset");
    __CPROVER_assert(g_hook_allocs == 0 && g_hook_frees == 0, "C09 C14 no allocator call in noalloc mode");
    VF_COVER(r && want == PSP_N + 2);
    VF_COVER(r && want == 6 * PSP_N + 2);
    VF_COVER(!r && n > 3);
}
