#include "cjson_tu.h"
void h_cJSON_DeleteItemFromObjectCaseSensitive(void)
{
    cJSON *o; const char *s;
    VF_INIT(); g_fwp.pub_calls = 0; g_del_calls = 0;
    cJSON_DeleteItemFromObjectCaseSensitive(o, s);
    VF_COVER(g_del_calls == 1);
}
