#include "cjson_tu.h"
void h_cJSON_GetArrayItem(void)
{
    const cJSON *a; int i; cJSON *r;
    VF_INIT(); g_gai_calls = 0; g_gai_ret = nondet_bool() ? NULL : malloc(sizeof(cJSON));
    r = cJSON_GetArrayItem(a, i);
    VF_COVER(r != NULL); VF_COVER(r == NULL && i < 0);
}
