#include "cjson_tu.h"
void h_cJSON_PrintBuffered(void)
{
    const cJSON *i; int pre; cJSON_bool f; char *r;
    VF_INIT(); g_wb_calls = 0; g_pr_calls = 0; g_disp = D_NONE;
    r = cJSON_PrintBuffered(i, pre, f);
    VF_COVER(r != NULL); VF_COVER(r == NULL && g_wb_calls == 1); VF_COVER(r == NULL && g_wb_calls == 0 && pre >= 0);
}
