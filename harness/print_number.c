#include "cjson_tu.h"
void h_print_number(void)
{
    const cJSON *i; printbuffer *p; cJSON_bool r;
    VF_INIT(); VF_INIT_LOCALE(); g_ens_calls = 0; g_fmt = FMT_NONE;
    r = print_number(i, p);
    VF_COVER(r && g_fmt == FMT_D);
    VF_COVER(r && g_fmt == FMT_15G);
    VF_COVER(r && g_fmt == FMT_17G);
    VF_COVER(r && g_fmt == FMT_NULL);
    VF_COVER(!r && g_ens_calls == 1);
}
