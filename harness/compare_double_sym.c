/* lemma: compare_double is symmetric and reflexive on finite numbers (all 2^128 pairs), on the real code */
#include "cjson_tu.h"
void h_compare_double_sym(void)
{
    double a, b;
    cJSON_bool r1 = compare_double(a, b);
    cJSON_bool r2 = compare_double(b, a);
    __CPROVER_assert(r1 == r2, "C12 symmetry of compare_double");
    if (FIN(a)) { __CPROVER_assert(compare_double(a, a), "C12 reflexive on finite numbers"); }
    VF_COVER(r1);
}
