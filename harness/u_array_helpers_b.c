/* cJSON_Utils.c array helpers behind JSON Patch (add / remove / move / copy on array elements), bounded unit (B):
 * detach_item_from_array and insert_item_in_array on an array of AH_N elements (concrete length), every index 0..AH_N+1.
 * Result against the list model: the right element leaves / enters at the right position, all others keep their order, and the
 * chain stays healthy (next/prev mirror, first->prev designates the last element, last->next NULL) - the shape every later edit relies on. */
#include "both_tu.h"
#ifndef AH_N
#define AH_N 3
#endif
static cJSON *nd[AH_N + 1];
static cJSON *mk(void) { cJSON *x = malloc(sizeof(cJSON)); __CPROVER_assume(x != NULL); x->next = x->prev = x->child = NULL; x->type = cJSON_Number; x->valuestring = NULL; x->string = NULL; x->valueint = 0; x->valuedouble = 0; return x; }
/* the array holds exactly want[0..n) in this order and is a healthy chain */
static int chain_is(const cJSON *arr, cJSON **want, unsigned n)
{
    const cJSON *c = arr->child, *last = NULL; unsigned i;
    if (n == 0) return c == NULL;
    for (i = 0; i < AH_N + 1; i++)
    {
        if (i >= n) break;
        if (c != want[i]) return 0;
        if (i > 0 && c->prev != last) return 0;
        last = c; c = c->next;
    }
    return c == NULL && arr->child->prev == last;
}
void h_u_array_helpers_b(void)
{
    cJSON *arr = mk(), *want[AH_N + 1]; unsigned i, j; size_t which = nondet_size_t();
    VF_INIT();
    global_hooks.allocate = vf_alloc; global_hooks.deallocate = vf_free; global_hooks.reallocate = NULL;
    arr->type = cJSON_Array;
    for (i = 0; i < AH_N; i++) { nd[i] = mk(); if (i == 0) { arr->child = nd[0]; nd[0]->prev = nd[0]; } else { nd[i - 1]->next = nd[i]; nd[i]->prev = nd[i - 1]; arr->child->prev = nd[i]; } }
    __CPROVER_assume(which <= AH_N + 1);
#if AH_OP == 0
    {
        cJSON *r = detach_item_from_array(arr, which);
        if (which < AH_N)
        {
            __CPROVER_assert(r == nd[which] && r->next == NULL && r->prev == NULL, "C16 C06 remove: the element at the index is detached and points nowhere");
            for (i = 0, j = 0; i < AH_N; i++) if (i != which) want[j++] = nd[i];
            __CPROVER_assert(chain_is(arr, want, AH_N - 1), "C16 C06 remove: the other elements keep their order in a healthy chain (first->prev designates the last)");
        }
        else
        {
            __CPROVER_assert(r == NULL, "C16 remove: index out of range yields nothing");
            for (i = 0; i < AH_N; i++) want[i] = nd[i];
            __CPROVER_assert(chain_is(arr, want, AH_N), "C16 remove out of range: array unchanged");
        }
        VF_COVER(AH_N == 0 || (r != NULL && which + 1 == AH_N));
        VF_COVER(r == NULL);
    }
#elif AH_OP == 2
    {   /* lookup by index, every size_t index (not only small ones: an index is decoded from up to 20 digits) */
        size_t any = nondet_size_t(); cJSON *r = utils_get_array_item(arr, any);
        __CPROVER_assert(r == (any < AH_N ? nd[any < AH_N ? any : 0] : NULL), "C15 C16 element lookup: the element at the index, nothing for any index at or beyond the length (every 64-bit index)");
        for (i = 0; i < AH_N; i++) want[i] = nd[i];
        __CPROVER_assert(chain_is(arr, want, AH_N), "C15 lookup does not modify the array");
        VF_COVER(AH_N == 0 || r != NULL);
        VF_COVER(r == NULL && any > 4294967296ul);
    }
#else
    {
        cJSON *x = mk(); cJSON_bool r = insert_item_in_array(arr, which, x);
        if (which <= AH_N)
        {
            __CPROVER_assert(r, "C16 add: every index up to the length is accepted (the length itself appends)");
            for (i = 0, j = 0; i <= AH_N; i++) { if (i == which) want[j++] = x; if (i < AH_N) want[j++] = nd[i]; }
            __CPROVER_assert(chain_is(arr, want, AH_N + 1), "C16 C06 add: the element is inserted before the index, the others keep their order, healthy chain");
        }
        else
        {
            __CPROVER_assert(!r, "C16 add: index beyond the length is refused");
            for (i = 0; i < AH_N; i++) want[i] = nd[i];
            __CPROVER_assert(chain_is(arr, want, AH_N) && x->next == NULL && x->prev == NULL, "C16 add refused: array and item unchanged");
        }
        VF_COVER(r && which == AH_N);
        VF_COVER(!r);
    }
#endif
}
