/* RFC 7396 merge-patch GENERATION round trip, bounded unit (B, enumerated scenarios) on the real core + utilities: `from` and `to` of a concrete shape (GM_SCEN),
 * symbolic integer values; applying the case-sensitive generated merge patch to `from` yields `to` (a NULL patch meaning no change), at every nesting level;
 * generation leaves both inputs well-formed. `to` contains no null member (precondition of the property). */
#define VF_BUILTIN_STRINGS
#define VF_BUILTIN_MEMCPY
#define VF_NOFAIL
#include "both_tu.h"
static cJSON *mknode(int type) { cJSON *x = malloc(sizeof(cJSON)); __CPROVER_assume(x != NULL); x->next = x->prev = x->child = NULL; x->type = type; x->valuestring = NULL; x->string = NULL; x->valueint = 0; x->valuedouble = 0; return x; }
static char *mkkey(char c) { char *s = malloc(2); __CPROVER_assume(s != NULL); s[0] = c; s[1] = 0; return s; }
static void append(cJSON *parent, cJSON *c) { if (parent->child == NULL) { parent->child = c; c->prev = c; } else { cJSON *l = parent->child->prev; l->next = c; c->prev = l; parent->child->prev = c; } }
static cJSON *num(char key, int v) { cJSON *n = mknode(cJSON_Number); n->valueint = v; n->valuedouble = (double)v; if (key) n->string = mkkey(key); return n; }
static cJSON *obj(char key) { cJSON *n = mknode(cJSON_Object); if (key) n->string = mkkey(key); return n; }
static int wf(const cJSON *o) { const cJSON *c = o->child, *l = NULL; unsigned i; if (c == NULL) return 1; for (i = 0; i < 5; i++) { if (c == NULL) break; if (l != NULL && c->prev != l) return 0; l = c; c = c->next; } return c == NULL && o->child->prev == l; }
void h_u_genmerge_b(void)
{
    cJSON *from, *to, *patch, *res; int v[6], i;
    VF_INIT();
    global_hooks.allocate = vf_alloc; global_hooks.deallocate = vf_free; global_hooks.reallocate = NULL;
#ifdef GM_CONCRETE   /* fully concrete scenario: CBMC executes the real code on one input (memory safety, ledger, round trip on that input only) */
    for (i = 0; i < 6; i++) { v[i] = (i * 7 + GM_CONCRETE) % 3; }
#else
    for (i = 0; i < 6; i++) { v[i] = nondet_int(); __CPROVER_assume(v[i] >= 0 && v[i] <= 2); }
#endif
#if GM_SCEN == 0      /* flat objects: common key, key only in from, key only in to (unsorted on purpose) */
    from = obj(0); append(from, num('b', v[0])); append(from, num('a', v[1]));
    to = obj(0); append(to, num('a', v[2])); append(to, num('c', v[3]));
#elif GM_SCEN == 1    /* nested objects whose keys differ only in case: the case-sensitive entry point must stay case-sensitive below the top level */
    from = obj(0); { cJSON *n = obj('k'); append(n, num('B', v[0])); append(n, num('a', v[1])); append(from, n); }
    to = obj(0); { cJSON *n = obj('k'); append(n, num('a', v[2])); append(n, num('b', v[3])); append(to, n); }
#elif GM_SCEN == 2    /* object -> scalar and scalar -> object */
    from = obj(0); append(from, num('a', v[0]));
    to = (v[5] == 0) ? num(0, v[1]) : obj(0);
    if (v[5] != 0) append(to, num('a', v[2]));
#elif GM_SCEN == 4    /* nested objects where case-insensitive and byte order of the keys disagree ("a" < "B" only when case is folded) */
    from = obj(0); { cJSON *n = obj('k'); append(n, num('a', v[0])); append(n, num('B', v[1])); append(from, n); }
    to = obj(0); { cJSON *n = obj('k'); append(n, num('B', v[1])); append(to, n); }
#elif GM_SCEN == 5    /* arrays are values, not objects: generation must neither reorder them nor sort them (scalar -> array of three) */
    from = num(0, v[0]);
    to = mknode(cJSON_Array); append(to, num(0, 10)); append(to, num(0, 20)); append(to, num(0, 30));
#define GM_TO_ARRAY to
#elif GM_SCEN == 6    /* array-valued member that differs (two elements -> three), below the top level */
    from = obj(0); { cJSON *a = mknode(cJSON_Array); a->string = mkkey('a'); append(a, num(0, 10)); append(a, num(0, 20)); append(from, a); }
    to = obj(0); { cJSON *a = mknode(cJSON_Array); a->string = mkkey('a'); append(a, num(0, 10)); append(a, num(0, 20)); append(a, num(0, 30)); append(to, a); }
#define GM_TO_ARRAY (to->child)
#else                 /* nested object replaced by a number, and a new nested object */
    from = obj(0); { cJSON *n = obj('k'); append(n, num('a', v[0])); append(from, n); }
    to = obj(0); append(to, num('k', v[1])); { cJSON *n = obj('m'); append(n, num('x', v[2])); append(to, n); }
#endif
    patch = cJSONUtils_GenerateMergePatchCaseSensitive(from, to);
    __CPROVER_assert(wf(from) && wf(to), "C18 C19 generation leaves both inputs well-formed");
#ifdef GM_TO_ARRAY
    {   /* the target's array still holds 10, 20, 30 in this order (generation must not change the VALUE of its inputs; arrays are ordered) */
        const cJSON *e = GM_TO_ARRAY->child;
        __CPROVER_assert(e != NULL && e->valueint == 10 && e->next != NULL && e->next->valueint == 20 && e->next->next != NULL && e->next->next->valueint == 30 && e->next->next->next == NULL,
            "C18 generation leaves the array elements of its inputs in order");
    }
#endif
    res = (patch != NULL) ? cJSONUtils_MergePatchCaseSensitive(from, patch) : from;
    __CPROVER_assert(res != NULL, "C18 the generated merge patch applies");
    __CPROVER_assert(cJSON_Compare(res, to, 1), "C18 applying the generated merge patch to `from` yields `to` (NULL patch = no change), at every nesting level");
    VF_COVER(patch != NULL);
}
