#include "cjson_tu.h"
void h_cJSON_CreateNull(void)
{
    cJSON *r;
    VF_INIT();
    r = cJSON_CreateNull();
    VF_COVER(r != NULL); VF_COVER(r == NULL);
}
