#include "cjson_tu.h"
void h_cJSON_CreateObject(void)
{
    cJSON *r;
    VF_INIT();
    r = cJSON_CreateObject();
    VF_COVER(r != NULL); VF_COVER(r == NULL);
}
