#include "cjson_tu.h"
void h_cJSON_CreateArray(void)
{
    cJSON *r;
    VF_INIT();
    r = cJSON_CreateArray();
    VF_COVER(r != NULL); VF_COVER(r == NULL);
}
