/* print_array skeleton: ensure, print_value, update_offset replaced by logging callee views (specs/c_printcont.h); the element loop runs at
 * most three times because the precondition hands over at most three children (stated bound). */
#include "cjson_tu.h"
void h_print_array(void)
{
    const cJSON *item; printbuffer *b; cJSON_bool r;
    VF_INIT(); g_el_n = 0; g_wl_n = 0;
    r = print_array(item, b);
    VF_COVER(r && g_wl_n == 0);
    VF_COVER(r && g_wl_n == PA_K && g_el_n == PA_K + 1);
    VF_COVER(!r && g_wl_n == 2 && g_el_n == 2);
    VF_COVER(!r && g_wl_n == 1 && g_el_n == 2 && g_wl[0].ok);
    VF_COVER(!r && g_el_n == 0);
}
