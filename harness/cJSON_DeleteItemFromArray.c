#include "cjson_tu.h"
void h_cJSON_DeleteItemFromArray(void)
{
    cJSON *a; int w;
    VF_INIT(); g_fwp.pub_calls = 0; g_del_calls = 0;
    cJSON_DeleteItemFromArray(a, w);
    VF_COVER(g_del_calls == 1);
}
