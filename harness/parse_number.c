#include "cjson_tu.h"
void h_parse_number(void)
{
    cJSON *item; parse_buffer *b;
    cJSON_bool r;
    VF_INIT_LOCALE();
    r = parse_number(item, b);
    VF_COVER(r && g_strtod_consumed >= 20);
    VF_COVER(!r && b != NULL && b->content != NULL && b->offset < b->length);
    VF_COVER(r && item->valueint == INT_MAX);
}
