/* parse_value with its four delegates replaced by their contracts (callee views).  The real call to parse_number is
 * redirected to the callee-view contract parse_number_cv via --replace-call-with-contract parse_number/parse_number_cv. */
#include "cjson_tu.h"
void h_parse_value(void)
{
    cJSON *item; parse_buffer *b;
    cJSON_bool r;
    VF_INIT();
    g_disp = D_NONE;
    r = parse_value(item, b);
    VF_COVER(r && g_disp == D_NONE);
    VF_COVER(r && g_disp == D_OBJECT);
    VF_COVER(!r && g_disp == D_STRING);
    VF_COVER(!r && g_disp == D_NONE);
}
