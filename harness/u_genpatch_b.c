/* RFC 6902 patch GENERATION round trip, bounded unit (B, enumerated scenarios) on the real core + utilities: documents `from` and `to` of a concrete shape
 * (GP_SCEN) with symbolic integer values; the case-sensitive generated patch applied to `from` must make it equal to `to`; it is empty exactly when
 * the documents are already equal; generation leaves both inputs equal in value and well-formed.  Keys include '/' and '~' (pointer escaping). */
#define VF_BUILTIN_STRINGS
#define VF_BUILTIN_MEMCPY
#define VF_NOFAIL
#include "both_tu.h"
static cJSON *mknode(int type) { cJSON *x = malloc(sizeof(cJSON)); __CPROVER_assume(x != NULL); x->next = x->prev = x->child = NULL; x->type = type; x->valuestring = NULL; x->string = NULL; x->valueint = 0; x->valuedouble = 0; return x; }
static char *mkkey(char c) { char *s = malloc(2); __CPROVER_assume(s != NULL); s[0] = c; s[1] = 0; return s; }
static void append(cJSON *parent, cJSON *c) { if (parent->child == NULL) { parent->child = c; c->prev = c; } else { cJSON *l = parent->child->prev; l->next = c; c->prev = l; parent->child->prev = c; } }
static cJSON *num(char key, int v) { cJSON *n = mknode(cJSON_Number); n->valueint = v; n->valuedouble = (double)v; if (key) n->string = mkkey(key); return n; }
static int wf(const cJSON *o) { const cJSON *c = o->child, *l = NULL; unsigned i; if (c == NULL) return 1; for (i = 0; i < 5; i++) { if (c == NULL) break; if (l != NULL && c->prev != l) return 0; l = c; c = c->next; } return c == NULL && o->child->prev == l; }
void h_u_genpatch_b(void)
{
    cJSON *from, *to, *patches; int v[6], i, status, same;
    VF_INIT();
    global_hooks.allocate = vf_alloc; global_hooks.deallocate = vf_free; global_hooks.reallocate = NULL;
#ifdef GP_CONCRETE   /* fully concrete scenario: CBMC executes the real code on one input (memory safety, ledger, round trip on that input only) */
    for (i = 0; i < 6; i++) { v[i] = (i * 7 + GP_CONCRETE) % 3; }
#else
    for (i = 0; i < 6; i++) { v[i] = nondet_int(); __CPROVER_assume(v[i] >= 0 && v[i] <= 2); }
#endif
#if GP_SCEN == 0      /* objects: common key, key only in from, key only in to (unsorted order on purpose) */
    from = mknode(cJSON_Object); append(from, num('b', v[0])); append(from, num('a', v[1]));
    to = mknode(cJSON_Object); append(to, num('a', v[2])); append(to, num('c', v[3]));
#elif GP_SCEN == 1    /* keys that need escaping in the generated paths */
    from = mknode(cJSON_Object); append(from, num('/', v[0])); append(from, num('~', v[1]));
    to = mknode(cJSON_Object); append(to, num('~', v[2])); append(to, num('/', v[3]));
#elif GP_SCEN == 2    /* arrays: to longer than from */
    from = mknode(cJSON_Array); append(from, num(0, v[0]));
    to = mknode(cJSON_Array); append(to, num(0, v[1])); append(to, num(0, v[2]));
#elif GP_SCEN == 3    /* arrays: from longer than to */
    from = mknode(cJSON_Array); append(from, num(0, v[0])); append(from, num(0, v[1])); append(from, num(0, v[2]));
    to = mknode(cJSON_Array); append(to, num(0, v[3]));
#elif GP_SCEN == 4    /* nested: object containing an array / number mismatch */
    from = mknode(cJSON_Object); { cJSON *a = mknode(cJSON_Array); a->string = mkkey('k'); append(a, num(0, v[0])); append(from, a); }
    to = mknode(cJSON_Object); { cJSON *a = mknode(cJSON_Array); a->string = mkkey('k'); append(a, num(0, v[1])); append(a, num(0, v[2])); append(to, a); append(to, num('m', v[3])); }
#else                 /* scalars / type mismatch at the root */
    from = num(0, v[0]);
    to = (v[5] == 0) ? num(0, v[1]) : mknode(cJSON_True);
#endif
    same = cJSON_Compare(from, to, 1);

    patches = cJSONUtils_GeneratePatchesCaseSensitive(from, to);

    __CPROVER_assert(patches != NULL && (patches->type & 0xFF) == cJSON_Array, "C17 the generated patch is a patch array");
    __CPROVER_assert((patches->child == NULL) == (same != 0), "C17 the patch is empty exactly when the documents are already equal");
    __CPROVER_assert(wf(from) && wf(to), "C17 C19 generation leaves both inputs well-formed (members may be reordered)");
    status = cJSONUtils_ApplyPatchesCaseSensitive(from, patches);
    __CPROVER_assert(status == 0, "C17 the generated patch applies");
    __CPROVER_assert(cJSON_Compare(from, to, 1), "C17 applying the generated patch to `from` yields a document equal to `to`");
    __CPROVER_assert(wf(from), "C17 C19 the patched document is well-formed");
    VF_COVER(same);
    VF_COVER(!same);
}
