#include "cjson_tu.h"
void h_cJSON_CreateNumber(void)
{
    double d; cJSON *r;
    VF_INIT();
    r = cJSON_CreateNumber(d);
    VF_COVER(r != NULL); VF_COVER(r == NULL);
}
