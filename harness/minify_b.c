/* cJSON_Minify (+ minify_string, skip_oneline_comment, skip_multiline_comment), bounded unit (B): zero-terminated buffer of exactly
 * MIN_S bytes (terminator is the last accessible byte), every other byte symbolic.  (safety) every access inside the block, result
 * terminated and not longer than the original; (function) equal to a reference scanner written from the property text: outside strings
 * blanks and comments vanish, a string literal is copied byte for byte where backslash + any byte is a pair. */
#ifndef MIN_S
#define MIN_S 8
#endif
#include "cjson_tu.h"
static char ref[MIN_S];
static _Bool ref_lone_slash;
static void ref_minify(const char *in)
{
    size_t i = 0, o = 0, guard;
    ref_lone_slash = 0;
    for (guard = 0; guard < MIN_S && in[i] != '\0'; guard++)
    {
        char c = in[i];
        if (c == ' ' || c == '\t' || c == '\r' || c == '\n') { i++; }
        else if (c == '/' && in[i + 1] == '/') { i += 2; while (in[i] != '\0' && in[i] != '\n') { i++; } if (in[i] == '\n') { i++; } }
        else if (c == '/' && in[i + 1] == '*') { i += 2; while (in[i] != '\0' && !(in[i] == '*' && in[i + 1] == '/')) { i++; } if (in[i] != '\0') { i += 2; } }
        else if (c == '/') { ref_lone_slash = 1; i++; }
        else if (c == '\"')
        {
            ref[o++] = in[i++];
            while (in[i] != '\0')
            {
                if (in[i] == '\\' && in[i + 1] != '\0') { ref[o++] = in[i++]; ref[o++] = in[i++]; }
                else if (in[i] == '\"') { ref[o++] = in[i++]; break; }
                else { ref[o++] = in[i++]; }
            }
        }
        else { ref[o++] = c; i++; }
    }
    ref[o] = '\0';
}

void h_minify_b(void)
{
    char *buf = malloc(MIN_S);
    char orig[MIN_S];
    size_t i, len_before = 0, len_after = 0;
    __CPROVER_assume(buf != NULL);
    for (i = 0; i + 1 < MIN_S; i++) { buf[i] = (char)nondet_uchar(); orig[i] = buf[i]; }
    buf[MIN_S - 1] = '\0'; orig[MIN_S - 1] = '\0';
    for (i = 0; i < MIN_S; i++) { if (orig[i] == '\0') { break; } } len_before = i;
    ref_minify(orig);

    cJSON_Minify(buf);

    for (i = 0; i < MIN_S; i++) { if (buf[i] == '\0') { break; } } len_after = i;
    __CPROVER_assert(len_after < MIN_S, "C13 result is zero-terminated inside the buffer");
    __CPROVER_assert(len_after <= len_before, "C13 result is no longer than the original");
    if (!ref_lone_slash)
    {
        for (i = 0; i < MIN_S; i++) { __CPROVER_assert(i > len_after || buf[i] == ref[i], "C13 result equals the reference: blanks/comments removed outside strings, string literals preserved byte for byte (escaped quotes and escaped backslashes)"); }
    }
#ifdef MIN_IDEMPOTENT
    {
        char once[MIN_S];
        for (i = 0; i < MIN_S; i++) { once[i] = buf[i]; }
        cJSON_Minify(buf);
        if (!ref_lone_slash) { for (i = 0; i < MIN_S; i++) { __CPROVER_assert(i > len_after || buf[i] == once[i], "C13 minifying twice equals minifying once"); } }
    }
#endif
    VF_COVER(len_after == MIN_S - 1);
    VF_COVER(len_after + 4 <= len_before && len_after >= 2);
    VF_COVER(len_after == 0 && len_before == MIN_S - 1);
}
