/* RFC 7396 merge patch, bounded unit (B) on the real core + utilities: every (target, patch) pair of values of <= 3 nodes each
 * (scalars, or objects with <= 2 members with distinct non-NULL 1-byte keys whose values are leaves), case-sensitive.
 * Compared with the RFC's own pseudo-code; the patch is never modified. */
#define VF_BUILTIN_STRINGS
#define VF_BUILTIN_MEMCPY
#define VF_NOFAIL
#define VF_ALLOC_CONCRETE 4
#include "both_tu.h"
#include "tree.h"
static int is_obj(const cJSON *n) { return n != NULL && (n->type & 0xFF) == cJSON_Object; }
static int leaf_same(const cJSON *x, const cJSON *y)
{
    if (x == NULL || y == NULL) return 0;
    if ((x->type & 0xFF) != (y->type & 0xFF) || x->valueint != y->valueint) return 0;
    if ((x->valuestring == NULL) != (y->valuestring == NULL)) return 0;
    return x->valuestring == NULL || x->valuestring[0] == y->valuestring[0];
}
static void shape(struct t_tree *t, cJSON *root)
{
    unsigned i;
    __CPROVER_assume(t->ngrand == 0);
    for (i = 0; i < 3; i++) if (i < t->count) { __CPROVER_assume(!(t->node[i]->type & (cJSON_IsReference | cJSON_StringIsConst))); }
    if (t->nchildren > 0) { __CPROVER_assume(is_obj(root)); }
    for (i = 1; i <= 2; i++) if (i <= t->nchildren) { __CPROVER_assume(t->key[i] != NULL && !is_obj(t->node[i]) && (t->node[i]->type & 0xFF) != cJSON_Array && (t->node[i]->type & 0xFF) != cJSON_Invalid); }
    if (t->nchildren == 2) __CPROVER_assume(t->key[1][0] != t->key[2][0]);
    __CPROVER_assume((root->type & 0xFF) != cJSON_Array && (root->type & 0xFF) != cJSON_Invalid);
}
void h_u_mergepatch_b(void)
{
    struct t_tree tt, tp; cJSON *target, *patch, *res; cJSON sp[3]; unsigned i, j, expect = 0;
    char tk[3] = {0,0,0}; const cJSON *tn[3] = {0,0,0}; int tobj;
    VF_INIT();
    global_hooks.allocate = vf_alloc; global_hooks.deallocate = vf_free; global_hooks.reallocate = NULL;
    target = t_build_n(&tt, 0, MP_NT, 0); patch = t_build_n(&tp, 0, MP_NP, 0);
    shape(&tt, target); shape(&tp, patch);
    for (i = 0; i < 3; i++) if (i < tp.count) sp[i] = *tp.node[i];
    for (i = 1; i <= 2; i++) if (i <= tt.nchildren) { tk[i] = tt.key[i][0]; tn[i] = tt.node[i]; }
    tobj = is_obj(target);
    {
        int target_was_obj = is_obj(target); unsigned tcount = tt.nchildren;

        res = cJSONUtils_MergePatchCaseSensitive(target, patch);

        __CPROVER_assert(res != NULL, "C18 a result is returned (allocation succeeds in this unit)");
        if (!is_obj(patch))
        {   /* a non-object patch replaces the target */
            __CPROVER_assert(res != patch && leaf_same(res, patch) && res->child == NULL, "C18 non-object patch: the result is a copy of the patch");
        }
        else
        {
            unsigned n = 0; cJSON *c;
            __CPROVER_assert(is_obj(res), "C18 object patch: the result is an object (a non-object target is first replaced by {})");
            /* expected members: target members not named by the patch stay; patch members that are not null are set; null members delete */
            for (i = 1; i <= 2; i++)
            {
                if (target_was_obj && i <= tcount)
                {
                    int named = 0;
                    for (j = 1; j <= 2; j++) if (j <= tp.nchildren && tp.key[j][0] == tk[i]) named = 1;
                    if (!named)
                    {
                        char k[2]; cJSON *m; k[0] = tk[i]; k[1] = 0;
                        m = cJSON_GetObjectItemCaseSensitive(res, k);
                        __CPROVER_assert(m == tn[i], "C18 members the patch does not name are kept");
                        expect++;
                    }
                }
            }
            for (j = 1; j <= 2; j++)
            {
                if (j <= tp.nchildren)
                {
                    cJSON *m = cJSON_GetObjectItemCaseSensitive(res, tp.key[j]);
                    if ((tp.node[j]->type & 0xFF) == cJSON_NULL) { __CPROVER_assert(m == NULL, "C18 null members delete"); }
                    else { __CPROVER_assert(m != NULL && m != tp.node[j] && leaf_same(m, tp.node[j]), "C18 other members are set to a copy of the patch value"); expect++; }
                }
            }
            for (c = res->child, i = 0; i < 5 && c != NULL; i++, c = c->next) n++;
            __CPROVER_assert(n == expect, "C18 no other members");
            if (res->child != NULL) { cJSON *l = res->child; for (i = 0; i < 4; i++) if (l->next) l = l->next; __CPROVER_assert(res->child->prev == l, "C19 C18 result is a well-formed container"); }
        }
    }
    for (i = 0; i < 3; i++) if (i < tp.count) { cJSON *n = tp.node[i]; __CPROVER_assert(n->next == sp[i].next && n->prev == sp[i].prev && n->child == sp[i].child && n->type == sp[i].type && n->string == sp[i].string && n->valuestring == sp[i].valuestring, "C18 the patch is never modified"); }
    VF_COVER(is_obj(patch) && expect == (MP_NT > MP_NP ? MP_NT : MP_NP));
    VF_COVER(is_obj(patch) && (MP_NT > 0 || !tobj));
    VF_COVER(MP_NP > 0 || !is_obj(patch));
}
