/* decode_array_index_from_pointer, bounded unit (B): every token of up to IDX_T bytes (complete for 64-bit size_t: 20 digits + 1).
 * RFC 6901 section 4: an array index is "0" or a digit 1-9 followed by digits, nothing else; it ends at NUL or '/'. */
#ifndef IDX_T
#define IDX_T 22
#endif
#include "utils_tu.h"
void h_u_index_b(void)
{
    unsigned char *tok = malloc(IDX_T + 1);
    size_t idx = 12345, i, want = 0; int valid = 1, ndig = 0; cJSON_bool r;
    __CPROVER_assume(tok != NULL);
    for (i = 0; i < IDX_T; i++) { tok[i] = nondet_uchar(); }
    tok[IDX_T] = 0;
    /* reference */
    for (i = 0; i < IDX_T + 1; i++)
    {
        unsigned char c = tok[i];
        if (c == 0 || c == '/') break;
        if (c < '0' || c > '9') { valid = 0; break; }
        if (ndig == 1 && tok[0] == '0') { valid = 0; break; }                 /* leading zero */
        if (want > (((size_t)-1) - (size_t)(c - '0')) / 10) { valid = 0; break; } /* does not fit size_t */
        want = want * 10 + (size_t)(c - '0'); ndig++;
    }
    if (ndig == 0) valid = 0;
    r = decode_array_index_from_pointer(tok, &idx);
    __CPROVER_assert((r != 0) == (valid != 0), "C15 array index accepted exactly when it is a decimal number without sign, leading zeros, other characters or overflow");
    if (r) { __CPROVER_assert(idx == want, "C15 decoded index value"); }
    else { __CPROVER_assert(idx == 12345, "C15 index untouched when refused"); }
    VF_COVER(r && ndig == 20);
    VF_COVER(!r && ndig == 20);
    VF_COVER(r && want == 0);
}
