#include "cjson_tu.h"
void h_cJSON_Parse(void)
{
    const char *v; cJSON *r;
    VF_INIT(); g_pl_calls = 0; g_po_calls = 0;
    r = cJSON_Parse(v);
    VF_COVER(r != NULL);
    VF_COVER(r == NULL);
}
