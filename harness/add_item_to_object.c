/* add_item_to_object with cJSON_strdup and add_item_to_array replaced by callee views; the key may be the item's own key (g_alias) */
#include "cjson_tu.h"
void h_add_item_to_object(void)
{
    cJSON *o, *i; const char *s; const internal_hooks *h; cJSON_bool ck, r;
    VF_INIT(); g_dup_calls = 0; g_aita_calls = 0; g_dup_ret = NULL;
    r = add_item_to_object(o, s, i, h, ck);
    VF_COVER(r && g_alias && g_dup_calls == 1);
    VF_COVER(r && g_dup_calls == 0);
    VF_COVER(!r && g_dup_calls == 1 && g_dup_ret == NULL);
    VF_COVER(!r && g_dup_calls == 0 && g_aita_calls == 0);
    VF_COVER(r && g_hook_frees > 0);
}
