#include "cjson_tu.h"
void h_create_reference(void)
{
    const cJSON *i; const internal_hooks *h; cJSON *r;
    VF_INIT();
    r = create_reference(i, h);
    VF_COVER(r != NULL); VF_COVER(r == NULL);
}
