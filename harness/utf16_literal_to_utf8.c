#include "cjson_tu.h"
void h_utf16_literal_to_utf8(void)
{
    const unsigned char *in, *end; unsigned char **out;
    __CPROVER_assume(g_u16_n <= VF_MAXLEN);
    unsigned char r = utf16_literal_to_utf8(in, end, out);
    VF_COVER(r == 0 && g_u16_n >= 12);
    VF_COVER(r == 6);
    VF_COVER(r == 12);
}
