/* sort_object / sort_list, bounded unit (B): objects with SORT_N members (each n <= SORT_N), one-byte keys, both case modes.
 * Post: keys non-decreasing under the requested order; exactly the same member nodes, every field other than next/prev untouched;
 * well-formed sibling chain afterwards (forward links end in NULL, back links mirror, FIRST CHILD'S BACK LINK DESIGNATES THE LAST CHILD). */
#ifndef SORT_N
#define SORT_N 3
#endif
#include "utils_tu.h"
static int fold(int c, cJSON_bool cs) { return (cs || c < 'A' || c > 'Z') ? c : c + 32; }
void h_u_sort_b(void)
{
    cJSON *obj = malloc(sizeof(cJSON));
    cJSON *nodes[SORT_N + 1]; cJSON snap[SORT_N + 1]; char *keys[SORT_N + 1];
    unsigned n = SORT_N, i, j, seen;   /* concrete length per unit: symbolic lengths make the recursive merge intractable (DESIGN 6) */
    cJSON_bool cs = nondet_bool();
    cJSON *c, *last;
    __CPROVER_assume(obj != NULL && n <= SORT_N);
    for (i = 0; i < SORT_N; i++)
    {
        nodes[i] = malloc(sizeof(cJSON)); keys[i] = malloc(2);
        __CPROVER_assume(nodes[i] != NULL && keys[i] != NULL);
        keys[i][0] = (char)nondet_uchar(); keys[i][1] = 0;
        __CPROVER_assume(keys[i][0] != 0 && (unsigned char)keys[i][0] < 128);
        nodes[i]->string = keys[i];
    }
    for (i = 0; i < SORT_N; i++) { if (i < n) { nodes[i]->next = (i + 1 < n) ? nodes[i + 1] : NULL; nodes[i]->prev = (i > 0) ? nodes[i - 1] : nodes[n - 1]; } snap[i] = *nodes[i]; }
    obj->child = n ? nodes[0] : NULL;
#ifdef SORT_PRESORTED
    /* idempotence: an object whose keys are already strictly increasing (after folding) is left exactly as it is */
    for (i = 0; i + 1 < SORT_N; i++) { __CPROVER_assume(fold((unsigned char)keys[i][0], cs) < fold((unsigned char)keys[i + 1][0], cs)); }
#endif

    sort_object(obj, cs);

    /* walk the result: at most n nodes */
    c = obj->child; last = NULL; seen = 0;
    for (i = 0; i < SORT_N + 1; i++)
    {
        if (c == NULL) break;
        __CPROVER_assert(i < n, "C19 no extra nodes / no cycle");
        if (i >= n) break;
        if (last != NULL)
        {
            __CPROVER_assert(c->prev == last, "C19 back link mirrors forward link");
            __CPROVER_assert(fold((unsigned char)last->string[0], cs) <= fold((unsigned char)c->string[0], cs), "C19 keys non-decreasing in the requested order");
        }
        last = c; seen++; c = c->next;
    }
    __CPROVER_assert(seen == n, "C19 same number of members");
    if (n > 0) { __CPROVER_assert(obj->child != NULL && obj->child->prev == last && last->next == NULL, "C19 first child's back link designates the last child; forward links end in NULL"); }
    else { __CPROVER_assert(obj->child == NULL, "C19 empty object stays empty"); }
    /* permutation: every original node is reachable exactly once (pointers are distinct, count matches) and untouched except links */
    for (j = 0; j < SORT_N; j++)
    {
        if (j < n)
        {
            unsigned hits = 0; c = obj->child;
            for (i = 0; i < SORT_N; i++) { if (c == NULL) break; if (c == nodes[j]) hits++; c = c->next; }
            __CPROVER_assert(hits == 1, "C19 exactly the same member nodes");
            __CPROVER_assert(nodes[j]->string == snap[j].string && nodes[j]->child == snap[j].child && nodes[j]->type == snap[j].type && nodes[j]->valuestring == snap[j].valuestring && nodes[j]->valueint == snap[j].valueint, "C19 values and subtrees untouched");
            __CPROVER_assert(keys[j][1] == 0, "C19 keys untouched");
        }
    }
#ifdef SORT_PRESORTED
    c = obj->child;
    for (i = 0; i < SORT_N; i++) { __CPROVER_assert(c == nodes[i], "C19 sorting a sorted object changes nothing (idempotent)"); c = c->next; }
#endif
#ifdef SORT_IDEMPOTENT
    {
        cJSON *order[SORT_N]; c = obj->child;
        for (i = 0; i < SORT_N; i++) { order[i] = c; if (c) c = c->next; }
        sort_object(obj, cs);
        c = obj->child;
        for (i = 0; i < SORT_N; i++) { if (i < n) { __CPROVER_assert(c != NULL && fold((unsigned char)c->string[0], cs) == fold((unsigned char)order[i]->string[0], cs), "C19 idempotent key sequence"); c = c->next; } }
        if (n > 0) { cJSON *l2 = obj->child; for (i = 0; i < SORT_N; i++) { if (l2->next) l2 = l2->next; } __CPROVER_assert(obj->child->prev == l2, "C19 still well-formed after a second sort"); }
    }
#endif
#ifndef SORT_PRESORTED
    VF_COVER(SORT_N < 2 || obj->child != nodes[0]);
#endif
    VF_COVER(SORT_N == 0 || obj->child == nodes[0]);
}
