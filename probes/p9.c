#include "/repo/cJSON.c"

/* allocator model (trusted): fresh block or NULL */
void *vf_alloc(size_t n) { if (nondet_int()) return NULL; return malloc(n); }
void vf_free(void *p) { free(p); }
void *vf_realloc(void *p, size_t n)
__CPROVER_requires(1)
__CPROVER_ensures(1)
{ /* abstract: new block (contents unspecified) or NULL, old freed on success */
  if (nondet_int()) return NULL; void *q = malloc(n); if (q == NULL) return NULL; free(p); return q; }

void *memcpy(void *dst, const void *src, size_t n)
{
  __CPROVER_assert(__CPROVER_r_ok(src, n), "memcpy src readable");
  __CPROVER_assert(__CPROVER_w_ok(dst, n), "memcpy dst writable");
  __CPROVER_assert(!__CPROVER_same_object(dst, src) || (const char*)dst + n <= (const char*)src || (const char*)src + n <= (const char*)dst, "memcpy no overlap");
  __CPROVER_havoc_slice(dst, n);
  return dst;
}

static unsigned char* ensure(printbuffer * const p, size_t needed)
__CPROVER_requires(__CPROVER_is_fresh(p, sizeof(*p)))
__CPROVER_requires(p->hooks.allocate == vf_alloc && p->hooks.deallocate == vf_free && (p->hooks.reallocate == vf_realloc || p->hooks.reallocate == NULL))
__CPROVER_requires(p->buffer == NULL || (p->length <= 0x7fffffff && __CPROVER_is_fresh(p->buffer, p->length) ))
__CPROVER_requires(p->length == 0 || p->offset < p->length)
__CPROVER_requires(p->length == 0 ==> p->offset == 0)
__CPROVER_ensures(__CPROVER_return_value != NULL ==> (p->buffer != NULL && __CPROVER_return_value == p->buffer + p->offset && p->offset + __CPROVER_old(needed) + 1 <= p->length && p->offset == __CPROVER_old(p->offset)))
__CPROVER_ensures(__CPROVER_return_value != NULL ==> __CPROVER_w_ok(__CPROVER_return_value, __CPROVER_old(needed) + 1))
__CPROVER_ensures((__CPROVER_return_value == NULL && __CPROVER_old(p->noalloc)) ==> (p->buffer == __CPROVER_old(p->buffer) && p->length == __CPROVER_old(p->length)))
__CPROVER_assigns(p->buffer, p->length)
__CPROVER_frees(p->buffer)
;
void *(*fp_a)(size_t) = vf_alloc; void (*fp_f)(void*) = vf_free; void *(*fp_r)(void*, size_t) = vf_realloc;
void h(void)
{
    printbuffer *p; size_t needed;
    ensure(p, needed);
}
