#include "/repo/cJSON.c"
/* Symbolic list window for cJSON_DetachItemViaPointer.
   Nodes: up to 5 window nodes H(head) P(prev of item) I(item) N(next of item) T(tail), aliasing chosen nondeterministically
   by picking list length n in 1..6 and item index k; nodes outside the window are poisoned (freed) so any access fails. */
#define MAXN 6
void h(void)
{
    cJSON *nodes[MAXN];
    unsigned n, k, i;
    cJSON *parent = malloc(sizeof(cJSON));
    __CPROVER_assume(parent != NULL);
    __CPROVER_assume(n >= 1 && n <= MAXN && k < n);
    for (i = 0; i < MAXN; i++) { nodes[i] = malloc(sizeof(cJSON)); __CPROVER_assume(nodes[i] != NULL); }
    for (i = 0; i < MAXN; i++) {
        if (i < n) {
            nodes[i]->next = (i + 1 < n) ? nodes[i+1] : NULL;
            nodes[i]->prev = (i > 0) ? nodes[i-1] : nodes[n-1];
        }
    }
    parent->child = nodes[0];
    /* poison every node that is not in the window {0, k-1, k, k+1, n-1}: models "arbitrarily many other nodes" */
    for (i = 0; i < MAXN; i++) {
        _Bool in_window = (i == 0) || (i + 1 == k) || (i == k) || (i == k + 1) || (i + 1 == n);
        if (i >= n || !in_window) free(nodes[i]);
    }
    cJSON *item = nodes[k];
    cJSON *old_next = item->next, *old_prev = item->prev;
    cJSON *head = nodes[0], *tail = nodes[n-1];

    cJSON *r = cJSON_DetachItemViaPointer(parent, item);

    __CPROVER_assert(r == item, "returns the item");
    __CPROVER_assert(item->next == NULL && item->prev == NULL, "detached item has no sibling links");
    if (n == 1) { __CPROVER_assert(parent->child == NULL, "empty after detaching only child"); }
    else {
        cJSON *new_head = (k == 0) ? nodes[1] : nodes[0];
        cJSON *new_tail = (k == n - 1) ? nodes[n-2] : nodes[n-1];
        __CPROVER_assert(parent->child == new_head, "head");
        __CPROVER_assert(new_head->prev == new_tail, "head->prev designates tail");
        __CPROVER_assert(new_tail->next == NULL, "tail->next NULL");
        if (k > 0 && k < n - 1) { __CPROVER_assert(nodes[k-1]->next == nodes[k+1] && nodes[k+1]->prev == nodes[k-1], "neighbours relinked"); }
    }
}
