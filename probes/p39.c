#include <stddef.h>
#define OFF(p) __CPROVER_POINTER_OFFSET(p)
void cp(char *json, size_t size)
__CPROVER_requires(size >= 1 && size <= 0x7fffffffffffUL && __CPROVER_is_fresh(json, size) && json[size-1] == 0)
__CPROVER_ensures(1)
__CPROVER_assigns(__CPROVER_object_whole(json))
{
  char *base = json;
  char *into = json;
  while (json[0] != 0)
  __CPROVER_assigns(json, into, __CPROVER_object_whole(base))
  __CPROVER_loop_invariant(__CPROVER_same_object(json, base) && __CPROVER_same_object(into, base) && OFF(into) <= OFF(json) && OFF(json) <= size - 1 && base[size-1] == 0)
  __CPROVER_decreases(size - OFF(json))
  {
    if (json[0] == ' ') { json++; }
    else { into[0] = json[0]; json++; into++; }
  }
  *into = 0;
}
void h(void){ char *b; size_t s; cp(b,s); }
