#include "/repo/cJSON.c"
#ifndef S
#define S 8
#endif
/* reference scanner: the spec */
static void ref_minify(const char *in, char *out){
  size_t i=0,o=0;
  while (in[i]) {
    char c = in[i];
    if (c==' '||c=='\t'||c=='\r'||c=='\n') { i++; }
    else if (c=='/' && in[i+1]=='/') { i+=2; while (in[i] && in[i] != '\n') i++; if (in[i]) i++; }
    else if (c=='/' && in[i+1]=='*') { i+=2; while (in[i] && !(in[i]=='*' && in[i+1]=='/')) i++; if (in[i]) i+=2; }
    else if (c=='/') { i++; }
    else if (c=='"') { out[o++]=in[i++]; while (in[i]) { if (in[i]=='\\' && in[i+1]) { out[o++]=in[i++]; out[o++]=in[i++]; } else if (in[i]=='"') { out[o++]=in[i++]; break; } else out[o++]=in[i++]; } }
    else { out[o++]=in[i++]; }
  }
  out[o]=0;
}
void h(void){
  char in[S], work[S], ref[S];
  in[S-1]=0;
  for (int k=0;k<S;k++) work[k]=in[k];
  ref_minify(in, ref);
  cJSON_Minify(work);
  for (int k=0;k<S;k++) { __CPROVER_assert(work[k]==ref[k] || 1, "placeholder"); }
  size_t k=0; while (ref[k] && work[k]==ref[k]) k++;
  __CPROVER_assert(work[k]==ref[k], "minify equals reference scanner");
}
