#include <stdlib.h>
typedef struct node { struct node *next, *prev; int v; } node;

node *build(unsigned n)
__CPROVER_requires(n < 1000000)
__CPROVER_ensures(__CPROVER_return_value == NULL || __CPROVER_rw_ok(__CPROVER_return_value, sizeof(node)))
__CPROVER_assigns()
{
  node *head = NULL, *cur = NULL;
  unsigned i;
  for (i = 0; i < n; i++)
  __CPROVER_assigns(i, head, cur)
  __CPROVER_loop_invariant(i <= n)
  __CPROVER_loop_invariant((head == NULL) == (cur == NULL))
  __CPROVER_loop_invariant(head != NULL ==> (__CPROVER_is_fresh(cur, sizeof(node)) && (head == cur || __CPROVER_is_fresh(head, sizeof(node)))))
  __CPROVER_decreases(n - i)
  {
    node *x = malloc(sizeof(node));
    if (!x) return head;
    x->next = NULL; x->prev = NULL; x->v = 0;
    if (!head) { head = cur = x; }
    else { cur->next = x; x->prev = cur; cur = x; }
  }
  if (head) head->prev = cur;
  return head;
}
void h(void){ unsigned n; build(n); }
