#include "/repo/cJSON.c"
static cJSON_bool compare_double(double a, double b)
__CPROVER_requires(1)
/* C12: a finite number never equals an infinite or NaN one */
__CPROVER_ensures((__CPROVER_isfinited(a) && !__CPROVER_isfinited(b)) ==> !__CPROVER_return_value)
__CPROVER_ensures((!__CPROVER_isfinited(a) && __CPROVER_isfinited(b)) ==> !__CPROVER_return_value)
__CPROVER_ensures((__CPROVER_isnand(a) || __CPROVER_isnand(b)) ==> !__CPROVER_return_value)
__CPROVER_ensures((a == b) ==> __CPROVER_return_value)
/* symmetric by construction: checked by harness */
__CPROVER_assigns();
void h(void){ double a,b; cJSON_bool r1 = compare_double(a,b); }
