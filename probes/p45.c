#include "/repo/cJSON.c"
cJSON *g_log[4]; unsigned g_logn;
cJSON *g_tok1, *g_tok2;            /* opaque handles standing for arbitrary owned subtrees */
#define IS_TOK(p) ((p) == g_tok1 || (p) == g_tok2)
#define NODE_OK(n) (__CPROVER_is_fresh(n, sizeof(cJSON)) && ((n)->valuestring == NULL || __CPROVER_is_fresh((n)->valuestring, 1)) && ((n)->string == NULL || __CPROVER_is_fresh((n)->string, 1)) && ((n)->child == NULL || IS_TOK((n)->child)))
#define OWNS_VS(t) (!((t) & cJSON_IsReference))
#define OWNS_KEY(t) (!((t) & cJSON_StringIsConst))

CJSON_PUBLIC(void) cJSON_Delete(cJSON *item)
__CPROVER_requires(global_hooks.deallocate == free && g_tok1 != NULL && g_tok2 != NULL && g_logn < 3)
__CPROVER_requires(IS_TOK(item) || item == NULL || (g_logn == 0 && NODE_OK(item) && (item->next == NULL || (NODE_OK(item->next) && item->next->next == NULL))))
/* abstract subtree: only logged */
__CPROVER_ensures(IS_TOK(item) ==> (g_logn == __CPROVER_old(g_logn) + 1 && g_log[__CPROVER_old(g_logn)] == item))
/* concrete chain */
__CPROVER_ensures((!IS_TOK(item) && item != NULL) ==> __CPROVER_was_freed(item))
__CPROVER_ensures((!IS_TOK(item) && item != NULL && __CPROVER_old(item->valuestring) != NULL) ==> (__CPROVER_was_freed(__CPROVER_old(item->valuestring)) == OWNS_VS(__CPROVER_old(item->type))))
__CPROVER_ensures((!IS_TOK(item) && item != NULL && __CPROVER_old(item->string) != NULL) ==> (__CPROVER_was_freed(__CPROVER_old(item->string)) == OWNS_KEY(__CPROVER_old(item->type))))
__CPROVER_ensures((!IS_TOK(item) && item != NULL && __CPROVER_old(item->next) == NULL) ==> (g_logn == ((OWNS_VS(__CPROVER_old(item->type)) && __CPROVER_old(item->child) != NULL) ? 1 : 0)))
__CPROVER_ensures((!IS_TOK(item) && item != NULL && __CPROVER_old(item->next) == NULL && g_logn == 1) ==> g_log[0] == __CPROVER_old(item->child))
__CPROVER_ensures(item == NULL ==> g_logn == __CPROVER_old(g_logn))
__CPROVER_assigns(g_logn, __CPROVER_object_whole(g_log))
__CPROVER_frees(!IS_TOK(item) && item != NULL: item, item->valuestring, item->string; !IS_TOK(item) && item != NULL && item->next != NULL: item->next, item->next->valuestring, item->next->string);

void h(void){ cJSON *i; __CPROVER_assume(!IS_TOK(i)); cJSON_Delete(i); }
