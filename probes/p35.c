#include <stddef.h>
char *g_base; size_t g_size;
#include "c2.c"
#define IN_BUF(p) (__CPROVER_same_object(p, g_base) && (p) >= g_base && (p) <= g_base + g_size - 1)
static void skip_multiline_comment(char **input)
__CPROVER_requires(__CPROVER_is_fresh(g_base, g_size) && g_size >= 3 && g_size <= 0x7fffffffffffUL && g_base[g_size-1] == 0)
__CPROVER_requires(__CPROVER_is_fresh(input, sizeof(*input)))
__CPROVER_requires(IN_BUF(*input) && (*input)[0] == '/' && (*input)[1] == '*')
__CPROVER_ensures(IN_BUF(*input) && *input > __CPROVER_old(*input))
__CPROVER_assigns(*input);
void h(void){ char **i; skip_multiline_comment(i); }
