#include <string.h>
#include "/repo/cJSON_Utils.c"
#ifndef MAXN
#define MAXN 4
#endif
void h(void)
{
    cJSON *nodes[MAXN];
    unsigned n, i; cJSON_bool cs;
    cJSON *obj = malloc(sizeof(cJSON)); __CPROVER_assume(obj != NULL);
    __CPROVER_assume(n >= 1 && n <= MAXN);
    memset(obj, 0, sizeof *obj); obj->type = cJSON_Object;
    for (i = 0; i < MAXN; i++) { nodes[i] = malloc(sizeof(cJSON)); __CPROVER_assume(nodes[i] != NULL);
        char *k = malloc(2); __CPROVER_assume(k != NULL); k[1] = 0; __CPROVER_assume(k[0] != 0);
        nodes[i]->child = NULL; nodes[i]->type = cJSON_NULL; nodes[i]->string = k; nodes[i]->valuestring = NULL; }
    for (i = 0; i < MAXN; i++) {
        if (i < n) { nodes[i]->next = (i + 1 < n) ? nodes[i+1] : NULL; nodes[i]->prev = (i > 0) ? nodes[i-1] : nodes[n-1]; } }
    obj->child = nodes[0];
    sort_object(obj, cs);
    cJSON *c = obj->child; unsigned cnt = 0; cJSON *last = NULL;
    __CPROVER_assert(c != NULL, "non-empty");
    for (i = 0; i < MAXN && c != NULL; i++) {
        if (c->next) { __CPROVER_assert(c->next->prev == c, "back link mirrors forward link");
                       __CPROVER_assert(compare_strings((unsigned char*)c->string, (unsigned char*)c->next->string, cs) <= 0, "sorted"); }
        last = c; c = c->next; cnt++;
    }
    __CPROVER_assert(c == NULL && cnt == n, "same number of members");
    __CPROVER_assert(obj->child->prev == last, "head->prev designates the tail");
}
