#include <stddef.h>
/* minimal write loop into symbolic-size buffer, mimicking minify_string */
void cp(char *base, size_t size, size_t in, size_t out)
__CPROVER_requires(size >= 2 && size <= 0x7fffffffffffUL && __CPROVER_is_fresh(base, size) && base[size-1] == 0 && out <= in && in <= size - 1)
__CPROVER_ensures(base[size-1] == 0)
__CPROVER_assigns(__CPROVER_object_whole(base))
{
  for (; base[in] != 0; in++, out++)
  __CPROVER_assigns(in, out, __CPROVER_object_whole(base))
  __CPROVER_loop_invariant(out <= in && in <= size - 1 && base[size-1] == 0)
  __CPROVER_decreases(size - in)
  {
    base[out] = base[in];
  }
}
void h(void){ char *b; size_t s,i,o; cp(b,s,i,o); }
