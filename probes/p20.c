#include "/repo/cJSON.c"
#ifndef NMAX
#define NMAX 8
#endif
void *vf_alloc(size_t n){
  __CPROVER_assert(n <= NMAX+1, "alloc size within model bound");
  if (nondet_int()) return NULL;
  switch(n){
#define C(k) case k: return malloc(k);
  C(1) C(2) C(3) C(4) C(5) C(6) C(7) C(8) C(9) C(10) C(11) C(12) C(13) C(14) C(15) C(16) C(17)
  default: __CPROVER_assume(0); return NULL;
  }
}
void vf_free(void *p){ free(p); }
void h(void){
  unsigned char content[NMAX];
  cJSON item; memset(&item, 0, sizeof item);
  parse_buffer b = {0,0,0,0,{0,0,0}};
  b.content = content; b.length = NMAX; b.offset = 0; b.hooks.allocate = vf_alloc; b.hooks.deallocate = vf_free; b.hooks.reallocate = 0;
  cJSON_bool r = parse_string(&item, &b);
  __CPROVER_assert(b.offset <= b.length, "offset in range");
  if (r) { __CPROVER_assert(item.valuestring != NULL, "vs"); }
}
