#include <stddef.h>
static int file_static;
int f(int x)
__CPROVER_requires(x >= 0 && x < 100)
__CPROVER_ensures(__CPROVER_return_value == x + 1)
__CPROVER_assigns()
{
  static int scratch[4];
  scratch[0] = x;          /* write to a local static */
  return scratch[0] + 1;
}
int g(int x)
__CPROVER_requires(x >= 0 && x < 100)
__CPROVER_ensures(__CPROVER_return_value == x + 1)
__CPROVER_assigns()
{
  file_static = x;          /* write to a file-scope static */
  return file_static + 1;
}
void h1(void){ int x; f(x); }
void h2(void){ int x; g(x); }
