#include "/repo/cJSON.c"
#define MAXN 6
CJSON_PUBLIC(cJSON *) cJSON_DetachItemViaPointer(cJSON *parent, cJSON * const item)
__CPROVER_requires(parent != NULL && item != NULL)   /* window built by the harness */
__CPROVER_ensures(__CPROVER_return_value == item && item->next == NULL && item->prev == NULL)
__CPROVER_ensures(__CPROVER_old(parent->child) == item ==> parent->child == __CPROVER_old(item->next))
__CPROVER_ensures(__CPROVER_old(parent->child) != item ==> (parent->child == __CPROVER_old(parent->child) && __CPROVER_old(item->prev)->next == __CPROVER_old(item->next)))
__CPROVER_ensures(__CPROVER_old(item->next) != NULL ==> __CPROVER_old(item->next)->prev == __CPROVER_old(item->prev))
__CPROVER_ensures((__CPROVER_old(item->next) == NULL && __CPROVER_old(parent->child) != item) ==> parent->child->prev == __CPROVER_old(item->prev))
__CPROVER_assigns(parent->child, item->next, item->prev;
                  item != parent->child: item->prev->next;
                  item->next != NULL: item->next->prev;
                  item != parent->child && item->next == NULL: parent->child->prev);
void h(void)
{
    cJSON *nodes[MAXN]; unsigned n, k, i;
    cJSON *parent = malloc(sizeof(cJSON)); __CPROVER_assume(parent != NULL);
    __CPROVER_assume(n >= 1 && n <= MAXN && k < n);
    for (i = 0; i < MAXN; i++) { nodes[i] = malloc(sizeof(cJSON)); __CPROVER_assume(nodes[i] != NULL); }
    for (i = 0; i < MAXN; i++) if (i < n) { nodes[i]->next = (i + 1 < n) ? nodes[i+1] : NULL; nodes[i]->prev = (i > 0) ? nodes[i-1] : nodes[n-1]; }
    parent->child = nodes[0];
    for (i = 0; i < MAXN; i++) { _Bool w = (i == 0) || (i + 1 == k) || (i == k) || (i == k + 1) || (i + 1 == n); if (i >= n || !w) free(nodes[i]); }
    cJSON *r = cJSON_DetachItemViaPointer(parent, nodes[k]);
    if (n > 1) { cJSON *nh = (k == 0) ? nodes[1] : nodes[0]; cJSON *nt = (k == n - 1) ? nodes[n-2] : nodes[n-1];
        __CPROVER_assert(parent->child == nh && nh->prev == nt && nt->next == NULL, "WF after detach"); }
    else __CPROVER_assert(parent->child == NULL, "empty");
}
