#include "c1.c"

#define PB_INV(b) ((b)->length >= 1 && (b)->length <= 0x7fffffffffffUL && (b)->offset <= (b)->length && (b)->depth <= CJSON_NESTING_LIMIT)

static parse_buffer *buffer_skip_whitespace(parse_buffer * const buffer)
__CPROVER_requires(buffer == NULL || (__CPROVER_is_fresh(buffer, sizeof(*buffer)) && (buffer->content == NULL || (__CPROVER_is_fresh(buffer->content, buffer->length) && buffer->offset <= buffer->length))))
__CPROVER_ensures(buffer == NULL ==> __CPROVER_return_value == NULL)
__CPROVER_ensures((buffer != NULL && buffer->content != NULL) ==> (__CPROVER_return_value == buffer && buffer->offset >= __CPROVER_old(buffer->offset) && buffer->offset <= buffer->length))
__CPROVER_ensures((buffer != NULL && buffer->content != NULL && buffer->length > 0 && __CPROVER_old(buffer->offset) < buffer->length) ==> buffer->offset < buffer->length)
/* exactness: everything skipped is <= 32, and we stop at a byte > 32 or at the last byte */
__CPROVER_assigns(buffer != NULL && buffer->content != NULL: buffer->offset);

static parse_buffer *skip_utf8_bom(parse_buffer * const buffer)
__CPROVER_requires(buffer == NULL || (__CPROVER_is_fresh(buffer, sizeof(*buffer)) && (buffer->content == NULL || (__CPROVER_is_fresh(buffer->content, buffer->length) && buffer->offset <= buffer->length))))
__CPROVER_ensures(__CPROVER_return_value == NULL || (__CPROVER_return_value == buffer && buffer->offset <= buffer->length && (buffer->offset == 0 || (buffer->offset == 3 && buffer->length >= 5))))
__CPROVER_assigns(buffer != NULL: buffer->offset);

static cJSON_bool parse_value(cJSON * const item, parse_buffer * const input_buffer)
__CPROVER_requires(__CPROVER_is_fresh(item, sizeof(cJSON)))
__CPROVER_requires(input_buffer == NULL || (__CPROVER_is_fresh(input_buffer, sizeof(parse_buffer)) && __CPROVER_is_fresh(input_buffer->content, input_buffer->length) && PB_INV(input_buffer)))
__CPROVER_ensures(input_buffer == NULL ==> !__CPROVER_return_value)
__CPROVER_ensures(input_buffer != NULL ==> (input_buffer->content == __CPROVER_old(input_buffer->content) && input_buffer->length == __CPROVER_old(input_buffer->length) && input_buffer->offset <= input_buffer->length))
__CPROVER_ensures(__CPROVER_return_value ==> input_buffer->offset > __CPROVER_old(input_buffer->offset))
__CPROVER_assigns(*item; input_buffer != NULL: input_buffer->offset, input_buffer->depth);

CJSON_PUBLIC(void) cJSON_Delete(cJSON *item)
__CPROVER_requires(item == NULL || __CPROVER_is_fresh(item, sizeof(cJSON)))
__CPROVER_ensures(1)
__CPROVER_assigns();

/* C10 as a contract on the public entry point */
CJSON_PUBLIC(cJSON *) cJSON_ParseWithLengthOpts(const char *value, size_t buffer_length, const char **return_parse_end, cJSON_bool require_null_terminated)
__CPROVER_requires(buffer_length <= 0x7fffffffffffUL && (value == NULL || __CPROVER_is_fresh(value, buffer_length)))
__CPROVER_requires(return_parse_end == NULL || __CPROVER_is_fresh(return_parse_end, sizeof(*return_parse_end)))
__CPROVER_requires(global_hooks.allocate == malloc && global_hooks.deallocate == free)
/* failure: error pointer and parse end agree and lie inside the buffer */
__CPROVER_ensures((__CPROVER_return_value == NULL && value != NULL) ==> (global_error.json == (const unsigned char*)value && (buffer_length == 0 ? global_error.position == 0 : global_error.position < buffer_length)))
__CPROVER_ensures((__CPROVER_return_value == NULL && value != NULL && return_parse_end != NULL) ==> (*return_parse_end == value + global_error.position))
/* success: global error pointer is NULL, parse end inside [value, value+len] */
__CPROVER_ensures(__CPROVER_return_value != NULL ==> (global_error.json == NULL && global_error.position == 0))
__CPROVER_ensures((__CPROVER_return_value != NULL && return_parse_end != NULL) ==> (__CPROVER_same_object(*return_parse_end, value) && *return_parse_end >= value && *return_parse_end <= value + buffer_length))
__CPROVER_ensures((__CPROVER_return_value != NULL && return_parse_end != NULL && require_null_terminated) ==> (*return_parse_end < value + buffer_length && **return_parse_end == '\0'))
__CPROVER_assigns(global_error; return_parse_end != NULL: *return_parse_end);

void h(void){ const char *v; size_t n; const char **e; cJSON_bool r; cJSON_ParseWithLengthOpts(v, n, e, r); }
