#include "/repo/cJSON.c"

#define PB_INV(b) ((b)->length >= 1 && (b)->length <= 0x7fffffffffffUL && (b)->offset <= (b)->length && (b)->depth <= CJSON_NESTING_LIMIT && (b)->hooks.allocate == malloc && (b)->hooks.deallocate == free)
#define PB_FRESH(b) (__CPROVER_is_fresh(b, sizeof(parse_buffer)) && __CPROVER_is_fresh((b)->content, (b)->length) && PB_INV(b))
#define PB_SAME(b) ((b)->content == __CPROVER_old((b)->content) && (b)->length == __CPROVER_old((b)->length) && (b)->offset <= (b)->length)

static parse_buffer *buffer_skip_whitespace(parse_buffer * const buffer)
__CPROVER_requires(__CPROVER_is_fresh(buffer, sizeof(*buffer)) && __CPROVER_is_fresh(buffer->content, buffer->length) && buffer->offset <= buffer->length && buffer->length <= 0x7fffffffffffUL)
__CPROVER_ensures(__CPROVER_return_value == buffer && buffer->offset >= __CPROVER_old(buffer->offset) && buffer->offset <= buffer->length)
__CPROVER_ensures((buffer->length > 0 && __CPROVER_old(buffer->offset) < buffer->length) ==> buffer->offset < buffer->length)
__CPROVER_assigns(buffer->offset);

static cJSON_bool parse_value(cJSON * const item, parse_buffer * const input_buffer)
__CPROVER_requires(__CPROVER_is_fresh(item, sizeof(cJSON)) && PB_FRESH(input_buffer))
__CPROVER_ensures(PB_SAME(input_buffer) && input_buffer->depth == __CPROVER_old(input_buffer->depth))
__CPROVER_ensures(__CPROVER_return_value ==> input_buffer->offset > __CPROVER_old(input_buffer->offset))
__CPROVER_assigns(*item, input_buffer->offset, input_buffer->depth);

CJSON_PUBLIC(void) cJSON_Delete(cJSON *item)
__CPROVER_requires(item == NULL || __CPROVER_rw_ok(item, sizeof(cJSON)))
__CPROVER_ensures(1)
__CPROVER_assigns();

static cJSON_bool parse_array(cJSON * const item, parse_buffer * const input_buffer)
__CPROVER_requires(__CPROVER_is_fresh(item, sizeof(cJSON)) && PB_FRESH(input_buffer) && input_buffer->offset < input_buffer->length)
__CPROVER_ensures(PB_SAME(input_buffer))
__CPROVER_ensures(__CPROVER_return_value ==> (input_buffer->offset > __CPROVER_old(input_buffer->offset) && input_buffer->depth == __CPROVER_old(input_buffer->depth) && item->type == cJSON_Array))
__CPROVER_assigns(*item, input_buffer->offset, input_buffer->depth);

void h(void)
{
    cJSON *item; parse_buffer *b;
    parse_array(item, b);
}
