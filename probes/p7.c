#include "c1.c"
static parse_buffer *buffer_skip_whitespace(parse_buffer * const buffer)
__CPROVER_requires(buffer == NULL || (__CPROVER_is_fresh(buffer, sizeof(*buffer)) &&
      (buffer->content == NULL || (buffer->length <= 0x7fffffffffff && __CPROVER_is_fresh(buffer->content, buffer->length) && buffer->offset <= buffer->length))))
__CPROVER_ensures((buffer == NULL) ==> __CPROVER_return_value == NULL)
__CPROVER_ensures((buffer != NULL && buffer->content != NULL) ==> (__CPROVER_return_value == buffer &&
      buffer->offset >= __CPROVER_old(buffer->offset) && (buffer->length > 0 ==> buffer->offset < buffer->length || buffer->offset == __CPROVER_old(buffer->offset))))
__CPROVER_assigns(buffer != NULL && buffer->content != NULL: buffer->offset);

void h(void)
{
    parse_buffer *b;
    buffer_skip_whitespace(b);
}
