#include "/repo/cJSON.c"

#define HEXV(c) (((c) >= '0' && (c) <= '9') ? (c) - '0' : ((c) >= 'A' && (c) <= 'F') ? (c) - 'A' + 10 : ((c) >= 'a' && (c) <= 'f') ? (c) - 'a' + 10 : -1)
#define ISHEX4(p) (HEXV((p)[0]) >= 0 && HEXV((p)[1]) >= 0 && HEXV((p)[2]) >= 0 && HEXV((p)[3]) >= 0)
#define HEX4(p) ((unsigned)((HEXV((p)[0]) << 12) | (HEXV((p)[1]) << 8) | (HEXV((p)[2]) << 4) | HEXV((p)[3])))

static unsigned parse_hex4(const unsigned char * const input)
__CPROVER_requires(__CPROVER_is_fresh(input, 4))
__CPROVER_ensures(ISHEX4(input) ==> __CPROVER_return_value == HEX4(input))
__CPROVER_ensures(!ISHEX4(input) ==> __CPROVER_return_value == 0)
__CPROVER_assigns();

/* spec helpers for UTF-8 */
#define U8LEN(cp) ((cp) < 0x80 ? 1 : (cp) < 0x800 ? 2 : (cp) < 0x10000 ? 3 : 4)
unsigned char ghost_out[8];
unsigned char *ghost_outp;

static unsigned char utf16_literal_to_utf8(const unsigned char * const input_pointer, const unsigned char * const input_end, unsigned char **output_pointer)
__CPROVER_requires(__CPROVER_is_fresh(input_pointer, 12) && __CPROVER_is_fresh(output_pointer, sizeof(*output_pointer)) && __CPROVER_is_fresh(*output_pointer, 4))
__CPROVER_requires(__CPROVER_same_object(input_pointer, input_end) && input_end >= input_pointer && input_end <= input_pointer + 12)
__CPROVER_requires(input_pointer[0] == '\\' && input_pointer[1] == 'u')
/* C03: not four hex digits -> rejected */
__CPROVER_ensures((input_end - input_pointer >= 6 && !ISHEX4(input_pointer + 2)) ==> __CPROVER_return_value == 0)
__CPROVER_ensures((input_end - input_pointer < 6) ==> __CPROVER_return_value == 0)
/* BMP, non surrogate */
__CPROVER_ensures((input_end - input_pointer >= 6 && ISHEX4(input_pointer + 2) && (HEX4(input_pointer+2) < 0xD800 || HEX4(input_pointer+2) > 0xDFFF)) ==>
    (__CPROVER_return_value == 6 && *output_pointer == __CPROVER_old(*output_pointer) + U8LEN(HEX4(input_pointer+2))))
__CPROVER_ensures((input_end - input_pointer >= 6 && ISHEX4(input_pointer + 2) && HEX4(input_pointer+2) >= 0x800 && (HEX4(input_pointer+2) < 0xD800 || HEX4(input_pointer+2) > 0xDFFF)) ==>
    (__CPROVER_old(*output_pointer)[0] == (0xE0 | (HEX4(input_pointer+2) >> 12)) && __CPROVER_old(*output_pointer)[1] == (0x80 | ((HEX4(input_pointer+2) >> 6) & 0x3F)) && __CPROVER_old(*output_pointer)[2] == (0x80 | (HEX4(input_pointer+2) & 0x3F))))
/* lone low surrogate rejected */
__CPROVER_ensures((input_end - input_pointer >= 6 && ISHEX4(input_pointer + 2) && HEX4(input_pointer+2) >= 0xDC00 && HEX4(input_pointer+2) <= 0xDFFF) ==> __CPROVER_return_value == 0)
/* return value is always 0, 6 or 12 and never reads past input_end (pointer checks) */
__CPROVER_ensures(__CPROVER_return_value == 0 || __CPROVER_return_value == 6 || __CPROVER_return_value == 12)
__CPROVER_ensures(__CPROVER_return_value == 0 ==> *output_pointer == __CPROVER_old(*output_pointer))
__CPROVER_assigns(*output_pointer, __CPROVER_object_whole(*output_pointer));

void h(void){ const unsigned char *a, *b; unsigned char **o; utf16_literal_to_utf8(a, b, o); }
