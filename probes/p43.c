#include <stddef.h>
int vf_sprintf__i__i__i(char *s, int a, int b, int c);
static int vf_w(char *s, int lo, int hi){ int n; __CPROVER_assume(n >= lo && n <= hi); __CPROVER_assert(__CPROVER_w_ok(s, (size_t)n + 1), "sprintf destination large enough"); __CPROVER_havoc_slice(s, (size_t)n + 1); s[n] = 0; return n; }
int vf_sprintf_null(char *s){ __CPROVER_assert(__CPROVER_w_ok(s,5),"dst"); s[0]='n';s[1]='u';s[2]='l';s[3]='l';s[4]=0; return 4; }
int vf_sprintf__d(char *s, int v){ return vf_w(s, 1, 11); }
int vf_sprintf__1_15g(char *s, double d){ return vf_w(s, 1, 22); }
int vf_sprintf__1_17g(char *s, double d){ return vf_w(s, 1, 24); }
int vf_sprintf_u_04x(char *s, unsigned c){ const char *hx = "0123456789abcdef"; __CPROVER_assert(__CPROVER_w_ok(s,6),"dst"); s[0]='u'; s[1]=hx[(c>>12)&15]; s[2]=hx[(c>>8)&15]; s[3]=hx[(c>>4)&15]; s[4]=hx[c&15]; s[5]=0; return 5; }
int vf_sscanf_lg(const char *s, double *d){ if (nondet_int()) return 0; double v; *d = v; return 1; }
#include "c4.c"
struct lconv *localeconv(void) { static struct lconv l; static char dp[2]; dp[1] = 0; l.decimal_point = dp; return &l; }
static unsigned char* ensure(printbuffer * const p, size_t needed)
__CPROVER_requires(__CPROVER_is_fresh(p, sizeof(*p)) && needed <= 64)
__CPROVER_ensures(__CPROVER_return_value == NULL || __CPROVER_is_fresh(__CPROVER_return_value, needed + 1))
__CPROVER_ensures(p->offset == __CPROVER_old(p->offset))
__CPROVER_assigns();
static cJSON_bool print_number(const cJSON * const item, printbuffer * const output_buffer)
__CPROVER_requires(__CPROVER_is_fresh(item, sizeof(cJSON)))
__CPROVER_requires(output_buffer == NULL || (__CPROVER_is_fresh(output_buffer, sizeof(printbuffer)) && output_buffer->offset < 0x7fffffff))
__CPROVER_ensures(output_buffer == NULL ==> !__CPROVER_return_value)
__CPROVER_ensures(__CPROVER_return_value ==> (output_buffer->offset >= __CPROVER_old(output_buffer->offset) + 1 && output_buffer->offset <= __CPROVER_old(output_buffer->offset) + 24))
__CPROVER_assigns(output_buffer != NULL: output_buffer->offset);
void h(void){ const cJSON *i; printbuffer *p; print_number(i, p); }
