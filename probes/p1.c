#include "/repo/cJSON.c"

/* contract on re-declaration after definition */
static unsigned parse_hex4(const unsigned char * const input)
__CPROVER_requires(__CPROVER_is_fresh(input, 4))
__CPROVER_ensures(__CPROVER_return_value <= 0xFFFF)
__CPROVER_assigns();

void h_parse_hex4(void)
{
    const unsigned char *p;
    unsigned r = parse_hex4(p);
}
